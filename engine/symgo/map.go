package symgo

// Insertion-ordered map used for every Go map. Deterministic iteration order
// is required by the re-execution search (Go's own map order is randomised);
// keys may be symbolic, in which case lookups fork on key equality.

import (
	"go/types"
)

type mentry struct {
	key, val value
}

type omap struct {
	keyT    types.Type
	entries []*mentry
	fast    map[value]*mentry // index for concrete basic-typed keys
}

func makeMap(kt types.Type, reserve int64) value {
	return &omap{keyT: kt, fast: map[value]*mentry{}}
}

func fastKey(k value) bool {
	switch k.(type) {
	case bool, int, int8, int16, int32, int64, uint, uint8, uint16, uint32, uint64, uintptr, string, float64, float32, *value, *channel:
		return true
	}
	return false
}

// find returns the entry whose key equals k (forking on symbolic equality).
func (m *omap) find(i *interpreter, k value) *mentry {
	if m == nil {
		return nil
	}
	if fastKey(k) {
		if e, ok := m.fast[k]; ok {
			return e
		}
		// k is concrete: only entries with symbolic keys can still match.
		for _, e := range m.entries {
			if fastKey(e.key) {
				continue
			}
			if i.truth(eqValue(i, m.keyT, e.key, k)) {
				return e
			}
		}
		return nil
	}
	for _, e := range m.entries {
		if i.truth(eqValue(i, m.keyT, e.key, k)) {
			return e
		}
	}
	return nil
}

func (m *omap) lookup(i *interpreter, k value) (value, bool) {
	if e := m.find(i, k); e != nil {
		return e.val, true
	}
	return nil, false
}

func (m *omap) insert(i *interpreter, k, v value) {
	if m == nil {
		panic(targetPanic{"assignment to entry in nil map"})
	}
	if e := m.find(i, k); e != nil {
		e.val = v
		return
	}
	e := &mentry{k, v}
	m.entries = append(m.entries, e)
	if fastKey(k) {
		m.fast[k] = e
	}
}

func (m *omap) delete(i *interpreter, k value) {
	if m == nil {
		return
	}
	e := m.find(i, k)
	if e == nil {
		return
	}
	for j, x := range m.entries {
		if x == e {
			m.entries = append(m.entries[:j:j], m.entries[j+1:]...)
			break
		}
	}
	if fastKey(e.key) {
		delete(m.fast, e.key)
	}
}

func (m *omap) len() int {
	if m == nil {
		return 0
	}
	return len(m.entries)
}

type omapIter struct {
	snap []*mentry
	m    *omap
	pos  int
}

func (it *omapIter) next() tuple {
	for it.pos < len(it.snap) {
		e := it.snap[it.pos]
		it.pos++
		// skip entries deleted during iteration
		live := false
		for _, x := range it.m.entries {
			if x == e {
				live = true
				break
			}
		}
		if live {
			return tuple{true, e.key, e.val}
		}
	}
	return tuple{false, nil, nil}
}
