package symgo

// sync, sync/atomic: state is kept in side tables keyed by the object's
// address; blocking semantics come from the concHandler.

import (
	"go/token"
	"go/types"
	"strings"

	"golang.org/x/tools/go/ssa"

	"verif/engine/smt"
)

type syncState struct {
	locked  map[*value]bool
	readers map[*value]int
	wg      map[*value]int64
	avals   map[*value]value
	pools   map[*value][]value // objects Put into pools of the module under test
	smaps   map[*value]*syncMapModel
}

// isTargetGlobal reports whether p is the address of a package-level variable
// of the module under test (same module as the harness package).
func (i *interpreter) isTargetGlobal(p *value) bool {
	root := ""
	if i.harnessPk != nil {
		root = i.harnessPk.Pkg.Path()
		for _, marker := range []string{"/lib", "/internal"} {
			if k := strings.Index(root, marker); k >= 0 {
				root = root[:k]
			}
		}
	}
	if root == "" {
		return false
	}
	for g, addr := range i.globals {
		if addr == p {
			return g.Pkg != nil && strings.HasPrefix(g.Pkg.Pkg.Path(), root)
		}
	}
	return false
}

// isTargetPool: a sync.Pool that belongs to the module under test — a
// package-level variable of it, or a pool value whose New function is code of
// the module (a pool a constructor creates per object).
func (i *interpreter) isTargetPool(p *value) bool {
	if i.isTargetGlobal(p) {
		return true
	}
	st, ok := (*p).(structure)
	if !ok || len(st) == 0 || i.harnessPk == nil {
		return false
	}
	root := i.harnessPk.Pkg.Path()
	for _, marker := range []string{"/lib", "/internal"} {
		if k := strings.Index(root, marker); k >= 0 {
			root = root[:k]
		}
	}
	var fn *ssa.Function
	switch f := st[len(st)-1].(type) {
	case *ssa.Function:
		fn = f
	case *closure:
		fn = f.Fn
	}
	return fn != nil && fn.Pkg != nil && strings.HasPrefix(fn.Pkg.Pkg.Path(), root)
}

type syncMapModel struct {
	keys  []string
	kvals []value
	vals  []value
}

func (m *syncMapModel) find(k string) int {
	for i, x := range m.keys {
		if x == k {
			return i
		}
	}
	return -1
}

func (i *interpreter) sync() *syncState {
	if i.syncSt == nil {
		i.syncSt = &syncState{locked: map[*value]bool{}, readers: map[*value]int{}, wg: map[*value]int64{}, avals: map[*value]value{}}
	}
	return i.syncSt
}

func (s *seqConc) syncOp(fr *frame, op string, obj *value, args []value) value {
	st := s.i.sync()
	switch op {
	case "Mutex.Lock", "RWMutex.Lock":
		if st.locked[obj] || st.readers[obj] > 0 {
			// goroutines run to completion where they are started, so whoever
			// holds the mutex now will never release it: the caller hangs
			panic(targetPanic{"all goroutines are asleep - deadlock! (Lock of a mutex that is held and never released)"})
		}
		st.locked[obj] = true
	case "Mutex.TryLock":
		if st.locked[obj] {
			return false
		}
		st.locked[obj] = true
		return true
	case "Mutex.Unlock", "RWMutex.Unlock":
		if !st.locked[obj] {
			panic(targetPanic{"sync: unlock of unlocked mutex"})
		}
		st.locked[obj] = false
	case "RWMutex.RLock":
		if st.locked[obj] {
			deadlock("RLock of a write-held mutex (sequential mode)")
		}
		st.readers[obj]++
	case "RWMutex.RUnlock":
		if st.readers[obj] == 0 {
			panic(targetPanic{"sync: RUnlock of unlocked RWMutex"})
		}
		st.readers[obj]--
	case "WaitGroup.Add":
		d := asInt64(s.i.concretize(args[0], -8, 8, "WaitGroup delta"))
		st.wg[obj] += d
		if st.wg[obj] < 0 {
			panic(targetPanic{"sync: negative WaitGroup counter"})
		}
	case "WaitGroup.Wait":
		if st.wg[obj] != 0 {
			deadlock("WaitGroup.Wait with non-zero counter (sequential mode)")
		}
	}
	return nil
}

func registerSyncStubs() {
	op := func(name string) externalFn {
		return func(fr *frame, a []value) (value, bool) {
			obj := a[0].(*value)
			if obj == nil {
				panic(targetPanic{"invalid memory address or nil pointer dereference"})
			}
			return fr.i.conc.syncOp(fr, name, obj, a[1:]), true
		}
	}
	externals["(*sync.Mutex).Lock"] = op("Mutex.Lock")
	externals["(*sync.Mutex).Unlock"] = op("Mutex.Unlock")
	externals["(*sync.Mutex).TryLock"] = op("Mutex.TryLock")
	externals["(*sync.RWMutex).Lock"] = op("RWMutex.Lock")
	externals["(*sync.RWMutex).Unlock"] = op("RWMutex.Unlock")
	externals["(*sync.RWMutex).RLock"] = op("RWMutex.RLock")
	externals["(*sync.RWMutex).RUnlock"] = op("RWMutex.RUnlock")
	externals["(*sync.WaitGroup).Add"] = op("WaitGroup.Add")
	externals["(*sync.WaitGroup).Wait"] = op("WaitGroup.Wait")
	externals["(*sync.WaitGroup).Done"] = func(fr *frame, a []value) (value, bool) {
		return fr.i.conc.syncOp(fr, "WaitGroup.Add", a[0].(*value), []value{int(-1)}), true
	}

	// sync.Once in a concurrent harness: one atomic test-and-set decides the
	// winner, which then runs f; losers return at once (that they wait for the
	// winner to finish is not modelled: a superset of the real behaviours).
	externals["(*sync.Once).Do"] = func(fr *frame, a []value) (value, bool) {
		if fr.i.tree == nil {
			return nil, false // sequential harness: interpret the real code
		}
		o := a[0].(*value)
		st := (*o).(structure)
		cell := &st[0]
		if _, isStruct := (*cell).(structure); isStruct {
			inner := (*cell).(structure)
			cell = &inner[len(inner)-1]
		}
		if fr.i.tree.cellOp(fr, "cas", cell, []value{uint32(0), uint32(1)}, false, "").(bool) {
			call(fr.i, fr, token.NoPos, a[1], nil)
		}
		return nil, true
	}
	// sync.Map in a sequential harness: a model keyed by concrete string keys
	// (its real implementation is lock-free code over unsafe pointers, which
	// the interpreter does not execute). Anything else — another key type, a
	// symbolic key, a concurrent harness — is reported as unsupported, never
	// as a finding.
	smap := func(fr *frame, recv value) *syncMapModel {
		if fr.i.tree != nil {
			unsupported("sync.Map in a concurrent harness")
		}
		p := recv.(*value)
		st := fr.i.sync()
		if st.smaps == nil {
			st.smaps = map[*value]*syncMapModel{}
		}
		if st.smaps[p] == nil {
			st.smaps[p] = &syncMapModel{}
		}
		return st.smaps[p]
	}
	skey := func(k value) string {
		it, ok := k.(iface)
		if ok {
			if str, ok := it.v.(string); ok {
				return str
			}
		}
		unsupported("sync.Map key that is not a concrete string")
		return ""
	}
	externals["(*sync.Map).Load"] = ext1(func(fr *frame, a []value) value {
		m := smap(fr, a[0])
		if k := m.find(skey(a[1])); k >= 0 {
			return tuple{m.vals[k], true}
		}
		return tuple{iface{}, false}
	})
	externals["(*sync.Map).Store"] = ext1(func(fr *frame, a []value) value {
		m := smap(fr, a[0])
		key := skey(a[1])
		if k := m.find(key); k >= 0 {
			m.vals[k] = a[2]
		} else {
			m.keys, m.kvals, m.vals = append(m.keys, key), append(m.kvals, a[1]), append(m.vals, a[2])
		}
		return nil
	})
	externals["(*sync.Map).LoadOrStore"] = ext1(func(fr *frame, a []value) value {
		m := smap(fr, a[0])
		key := skey(a[1])
		if k := m.find(key); k >= 0 {
			return tuple{m.vals[k], true}
		}
		m.keys, m.kvals, m.vals = append(m.keys, key), append(m.kvals, a[1]), append(m.vals, a[2])
		return tuple{a[2], false}
	})
	externals["(*sync.Map).Delete"] = ext1(func(fr *frame, a []value) value {
		m := smap(fr, a[0])
		if k := m.find(skey(a[1])); k >= 0 {
			m.keys, m.kvals, m.vals = append(m.keys[:k:k], m.keys[k+1:]...), append(m.kvals[:k:k], m.kvals[k+1:]...), append(m.vals[:k:k], m.vals[k+1:]...)
		}
		return nil
	})
	for _, name := range []string{"Range", "LoadAndDelete", "Swap", "CompareAndSwap", "CompareAndDelete", "Clear"} {
		name := name
		externals["(*sync.Map)."+name] = func(fr *frame, a []value) (value, bool) {
			unsupported("sync.Map.%s has no model", name)
			return nil, true
		}
	}

	// sync.Pool. Pools of the standard library and of dependencies never retain
	// anything (one of the behaviours the real pool is allowed to show, and the
	// one that does not multiply paths). A pool that is a package-level variable
	// of the module under test is modelled with its full freedom: Get returns
	// either the object Put last or a new one — a choice the exploration covers
	// both ways — so code that keeps using an object after Put is exposed.
	externals["(*sync.Pool).Put"] = func(fr *frame, a []value) (value, bool) {
		p := a[0].(*value)
		if fr.i.isTargetPool(p) {
			if it, ok := a[1].(iface); ok && it.t != nil {
				st := fr.i.sync()
				if st.pools == nil {
					st.pools = map[*value][]value{}
				}
				st.pools[p] = append(st.pools[p], a[1])
			}
		}
		return nil, true
	}
	externals["(*sync.Pool).Get"] = func(fr *frame, a []value) (value, bool) {
		p := a[0].(*value)
		if kept := fr.i.sync().pools[p]; len(kept) > 0 {
			c := fr.i.ex.Ctx
			if fr.i.ex.Choose([]*smt.Term{c.BoolC(true), c.BoolC(true)}) == 0 {
				v := kept[len(kept)-1]
				fr.i.sync().pools[p] = kept[:len(kept)-1]
				return v, true
			}
		}
		st := (*p).(structure)
		newFn := st[len(st)-1] // the New field is the last one
		switch f := newFn.(type) {
		case *ssa.Function:
			if f == nil {
				return iface{}, true
			}
		case nil:
			return iface{}, true
		}
		return call(fr.i, fr, token.NoPos, newFn, nil), true
	}
	// atomic.Value: contents kept in a side table keyed by the Value's address
	externals["(*sync/atomic.Value).Load"] = func(fr *frame, a []value) (value, bool) {
		v, ok := fr.i.sync().avals[a[0].(*value)]
		if !ok {
			return iface{}, true
		}
		return v, true
	}
	externals["(*sync/atomic.Value).Store"] = func(fr *frame, a []value) (value, bool) {
		if a[1].(iface).t == nil {
			panic(targetPanic{"sync/atomic: store of nil value into Value"})
		}
		fr.i.sync().avals[a[0].(*value)] = a[1]
		return nil, true
	}
	externals["(*sync/atomic.Value).Swap"] = func(fr *frame, a []value) (value, bool) {
		st := fr.i.sync()
		old, ok := st.avals[a[0].(*value)]
		st.avals[a[0].(*value)] = a[1]
		if !ok {
			return iface{}, true
		}
		return old, true
	}
	externals["(*sync/atomic.Value).CompareAndSwap"] = func(fr *frame, a []value) (value, bool) {
		st := fr.i.sync()
		cur, ok := st.avals[a[0].(*value)]
		var curV value = iface{}
		if ok {
			curV = cur
		}
		if fr.i.truth(eqValue(fr.i, nil, curV, a[1])) {
			st.avals[a[0].(*value)] = a[2]
			return true, true
		}
		return false, true
	}
	// atomics
	for _, ty := range []string{"Int32", "Int64", "Uint32", "Uint64", "Uintptr", "Pointer"} {
		ty := ty
		externals["sync/atomic.Load"+ty] = func(fr *frame, a []value) (value, bool) {
			return fr.i.conc.atomicOp(fr, "load", a[0].(*value), nil), true
		}
		externals["sync/atomic.Store"+ty] = func(fr *frame, a []value) (value, bool) {
			return fr.i.conc.atomicOp(fr, "store", a[0].(*value), a[1:]), true
		}
		externals["sync/atomic.Swap"+ty] = func(fr *frame, a []value) (value, bool) {
			return fr.i.conc.atomicOp(fr, "swap", a[0].(*value), a[1:]), true
		}
		externals["sync/atomic.CompareAndSwap"+ty] = func(fr *frame, a []value) (value, bool) {
			return fr.i.conc.atomicOp(fr, "cas", a[0].(*value), a[1:]), true
		}
		if ty != "Pointer" {
			externals["sync/atomic.Add"+ty] = func(fr *frame, a []value) (value, bool) {
				return fr.i.conc.atomicOp(fr, "add", a[0].(*value), a[1:]), true
			}
		}
	}
}

func (s *seqConc) atomicOp(fr *frame, op string, addr *value, args []value) value {
	return atomicApply(s.i, op, addr, args)
}

// atomicApply performs the memory effect of one atomic operation.
func atomicApply(i *interpreter, op string, addr *value, args []value) value {
	if addr == nil {
		panic(targetPanic{"invalid memory address or nil pointer dereference"})
	}
	switch op {
	case "load":
		return *addr
	case "store":
		*addr = args[0]
		return nil
	case "swap":
		old := *addr
		*addr = args[0]
		return old
	case "add":
		*addr = binop(i, token.ADD, nil, *addr, args[0])
		return *addr
	case "cas":
		var t types.Type
		if i.truth(eqScalarOrPtr(i, t, *addr, args[0])) {
			*addr = args[1]
			return true
		}
		return false
	}
	panic("atomicApply " + op)
}

func eqScalarOrPtr(i *interpreter, t types.Type, x, y value) value {
	if isSym(x) || isSym(y) {
		return i.symBinop(token.EQL, x, y)
	}
	return x == y
}
