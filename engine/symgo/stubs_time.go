package symgo

// time.Time is summarised as an abstract instant: the interpreter's
// representation of the struct {wall, ext, loc} holds wall = absMark and
// ext = nanoseconds since the Unix epoch (concrete or symbolic); the zero
// Time is the all-zero struct and lies before every abstract instant.
// Stated domain: instants 1970..2200, durations |d| < 2^61, no saturation
// inside the domain.

import (
	"go/token"
	"go/types"
	"math"
	"time"
)

const absMark = uint64(1)

// farMark: a concrete instant outside the range of UnixNano (built by
// time.Date with concrete arguments, e.g. year 10000); ext = Unix seconds.
// Only the text forms (MarshalJSON, Format) and UnixNano are defined on it.
const farMark = uint64(2)

func farTime(v value) (time.Time, bool) {
	s, ok := v.(structure)
	if !ok {
		return time.Time{}, false
	}
	if w, ok := s[0].(uint64); ok && w == farMark {
		return time.Unix(s[1].(int64), 0).UTC(), true
	}
	return time.Time{}, false
}

func absTime(ns value) value {
	return structure{absMark, ns, (*value)(nil)}
}

func timeParts(v value) (isZero bool, ns value) {
	s := v.(structure)
	w, ok := s[0].(uint64)
	if !ok {
		unsupported("time.Time with symbolic wall field")
	}
	if w == 0 {
		if e, ok := s[1].(int64); ok && e == 0 {
			return true, int64(0)
		}
	}
	if w != absMark {
		unsupported("time.Time value not produced by the abstract time model")
	}
	return false, s[1]
}

func (i *interpreter) arith(op token.Token, x, y value) value {
	return binop(i, op, types.Typ[types.Int64], x, y)
}

func registerTimeStubs() {
	model := func(name string) externalFn {
		return func(fr *frame, a []value) (value, bool) {
			unsupported("%s reached without a harness model (verif_stub)", name)
			return nil, true
		}
	}
	externals["time.Now"] = model("time.Now")
	externals["time.Sleep"] = model("time.Sleep")
	externals["time.Since"] = func(fr *frame, a []value) (value, bool) {
		now := callByName(fr, "time.Now", nil)
		return timeSub(fr.i, now, a[0]), true
	}
	externals["time.Until"] = func(fr *frame, a []value) (value, bool) {
		now := callByName(fr, "time.Now", nil)
		return timeSub(fr.i, a[0], now), true
	}
	externals["time.Unix"] = ext1(func(fr *frame, a []value) value {
		i := fr.i
		sec, nsec := a[0], a[1]
		if s, ok := sec.(int64); ok && s == 0 {
			return absTime(nsec)
		}
		return absTime(i.arith(token.ADD, i.arith(token.MUL, sec, int64(1e9)), nsec))
	})
	externals["time.Date"] = ext1(func(fr *frame, a []value) value {
		var n [7]int
		for k := 0; k < 7; k++ {
			c, ok := a[k].(int)
			if !ok {
				unsupported("time.Date with symbolic arguments")
			}
			n[k] = c
		}
		t := time.Date(n[0], time.Month(n[1]), n[2], n[3], n[4], n[5], n[6], time.UTC)
		if t.Year() >= 1970 && t.Year() < 2200 {
			return absTime(t.UnixNano())
		}
		if n[6] != 0 {
			unsupported("time.Date outside 1970..2200 with nanoseconds")
		}
		return structure{farMark, t.Unix(), (*value)(nil)}
	})
	externals["(time.Time).UnixNano"] = ext1(func(fr *frame, a []value) value {
		if t, ok := farTime(a[0]); ok {
			return t.UnixNano()
		}
		z, ns := timeParts(a[0])
		if z {
			return int64(-6795364578871345152)
		}
		return ns
	})
	unixDiv := func(div int64) externalFn {
		return ext1(func(fr *frame, a []value) value {
			z, ns := timeParts(a[0])
			if z {
				unsupported("Unix*() of the zero time.Time")
			}
			// instants of the domain are non-negative, so truncated and floor division agree
			return fr.i.arith(token.QUO, ns, div)
		})
	}
	externals["(time.Time).UnixMilli"] = unixDiv(1e6)
	externals["(time.Time).UnixMicro"] = unixDiv(1e3)
	externals["(time.Time).Unix"] = unixDiv(1e9)
	externals["time.UnixMilli"] = ext1(func(fr *frame, a []value) value {
		return absTime(fr.i.arith(token.MUL, a[0], int64(1e6)))
	})
	externals["(time.Time).Add"] = ext1(func(fr *frame, a []value) value {
		z, ns := timeParts(a[0])
		if z {
			if d, ok := a[1].(int64); ok && d == 0 {
				return a[0]
			}
			unsupported("Add on the zero time.Time")
		}
		return absTime(fr.i.arith(token.ADD, ns, a[1]))
	})
	externals["(time.Time).Sub"] = ext1(func(fr *frame, a []value) value { return timeSub(fr.i, a[0], a[1]) })
	externals["(time.Time).After"] = ext1(func(fr *frame, a []value) value { return timeCmp(fr.i, token.GTR, a[0], a[1]) })
	externals["(time.Time).Before"] = ext1(func(fr *frame, a []value) value { return timeCmp(fr.i, token.LSS, a[0], a[1]) })
	externals["(time.Time).Equal"] = ext1(func(fr *frame, a []value) value { return timeCmp(fr.i, token.EQL, a[0], a[1]) })
	externals["(time.Time).Compare"] = ext1(func(fr *frame, a []value) value {
		i := fr.i
		if i.truth(timeCmp(i, token.LSS, a[0], a[1])) {
			return -1
		}
		if i.truth(timeCmp(i, token.GTR, a[0], a[1])) {
			return 1
		}
		return 0
	})
	externals["(time.Time).IsZero"] = ext1(func(fr *frame, a []value) value {
		z, _ := timeParts(a[0])
		return z
	})
	// JSON text form: computed natively for concrete instants (RFC 3339 in
	// the process's local zone, exactly as the native replay does)
	externals["(time.Time).MarshalJSON"] = ext1(func(fr *frame, a []value) value {
		if t, ok := farTime(a[0]); ok {
			b, err := t.MarshalJSON()
			if err != nil {
				return tuple{[]value(nil), fr.i.errorOf(err.Error())}
			}
			return tuple{strBytes(string(b)), iface{}}
		}
		z, ns := timeParts(a[0])
		var t time.Time
		if !z {
			n, ok := ns.(int64)
			if !ok {
				unsupported("Time.MarshalJSON of a symbolic instant")
			}
			t = time.Unix(0, n)
		}
		b, err := t.MarshalJSON()
		if err != nil {
			return tuple{[]value(nil), fr.i.errorOf(err.Error())}
		}
		return tuple{strBytes(string(b)), iface{}}
	})
	// Format / AppendFormat: natively for concrete instants and layouts (same
	// zone convention as MarshalJSON)
	nativeTime := func(v value, what string) time.Time {
		if t, ok := farTime(v); ok {
			return t
		}
		z, ns := timeParts(v)
		if z {
			return time.Time{}
		}
		n, ok := ns.(int64)
		if !ok {
			unsupported("Time.%s of a symbolic instant", what)
		}
		return time.Unix(0, n)
	}
	externals["(time.Time).Format"] = ext1(func(fr *frame, a []value) value {
		layout, ok := a[1].(string)
		if !ok {
			unsupported("Time.Format with a symbolic layout")
		}
		return nativeTime(a[0], "Format").Format(layout)
	})
	externals["(time.Time).AppendFormat"] = ext1(func(fr *frame, a []value) value {
		layout, ok := a[2].(string)
		if !ok {
			unsupported("Time.AppendFormat with a symbolic layout")
		}
		return append(append([]value(nil), a[1].([]value)...), strBytes(nativeTime(a[0], "AppendFormat").Format(layout))...)
	})
	externals["(*time.Time).UnmarshalJSON"] = ext1(func(fr *frame, a []value) value {
		bs := a[1].([]value)
		raw := make([]byte, len(bs))
		for k, b := range bs {
			cb, ok := b.(uint8)
			if !ok {
				unsupported("Time.UnmarshalJSON of symbolic bytes")
			}
			raw[k] = cb
		}
		var t time.Time
		if err := t.UnmarshalJSON(raw); err != nil {
			return fr.i.errorOf(err.Error())
		}
		p := a[0].(*value)
		if t.IsZero() {
			*p = structure{uint64(0), int64(0), (*value)(nil)}
		} else {
			*p = absTime(t.UnixNano())
		}
		return iface{}
	})
	externals["(time.Time).UTC"] = ext1(func(fr *frame, a []value) value { return a[0] })
	externals["(time.Time).Local"] = ext1(func(fr *frame, a []value) value { return a[0] })
	externals["(time.Time).Round"] = ext1(func(fr *frame, a []value) value {
		if d, ok := a[1].(int64); ok && d <= 0 {
			return a[0]
		}
		unsupported("Time.Round")
		return nil
	})
}

func callByName(fr *frame, name string, args []value) value {
	if m, ok := fr.i.stubs[name]; ok {
		fr.i.ex.Stubbed[name] = true
		return call(fr.i, fr, token.NoPos, m, args)
	}
	r, _ := externals[name](fr, args)
	return r
}

func timeSub(i *interpreter, t, u value) value {
	zt, nt := timeParts(t)
	zu, nu := timeParts(u)
	switch {
	case zt && zu:
		return int64(0)
	case zu:
		return int64(math.MaxInt64) // saturates: year 1 is more than 292 years before the domain
	case zt:
		return int64(math.MinInt64)
	}
	return i.arith(token.SUB, nt, nu)
}

func timeCmp(i *interpreter, op token.Token, t, u value) value {
	zt, nt := timeParts(t)
	zu, nu := timeParts(u)
	if zt || zu {
		// the zero time is strictly before every abstract instant
		rank := func(z bool) int {
			if z {
				return 0
			}
			return 1
		}
		a, b := rank(zt), rank(zu)
		switch op {
		case token.GTR:
			return a > b
		case token.LSS:
			return a < b
		default:
			return a == b
		}
	}
	return i.arith(op, nt, nu)
}
