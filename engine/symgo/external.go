package symgo

// Summaries of library functions that cannot be interpreted (assembly,
// unsafe, reflection, OS) or that are summarised on symbolic arguments.
// A summary may decline (second result false); the real body is then
// interpreted.

import (
	"fmt"
	"go/token"
	"go/types"
	"math"
	"net"
	"strings"

	"verif/engine/smt"
)

type externalFn func(fr *frame, args []value) (value, bool)

// Key strings are from Function.String().
var externals = map[string]externalFn{}

func ext1(f func(fr *frame, args []value) value) externalFn {
	return func(fr *frame, args []value) (value, bool) { return f(fr, args), true }
}

func noop(fr *frame, args []value) (value, bool) { return nil, true }

func init() {
	for k, v := range map[string]externalFn{
		// ---- math ----
		"math.Abs":   fpUnary("fp.abs", math.Abs),
		"math.Floor": fpUnary("fp.roundToIntegral RTN", math.Floor),
		"math.Ceil":  fpUnary("fp.roundToIntegral RTP", math.Ceil),
		"math.Trunc": fpUnary("fp.roundToIntegral RTZ", math.Trunc),
		"math.Round": fpUnary("fp.roundToIntegral RNA", math.Round),
		"math.Sqrt":  fpUnary("fp.sqrt RNE", math.Sqrt),
		"math.Sin":   fpUninterp("verif_sin", math.Sin),
		"math.Cos":   fpUninterp("verif_cos", math.Cos),
		"math.IsNaN": ext1(func(fr *frame, a []value) value {
			if s, ok := a[0].(sym); ok {
				return fr.i.mkSym(fr.i.ex.Ctx.FPIsNaN(s.t), types.Bool)
			}
			return math.IsNaN(a[0].(float64))
		}),
		"math.IsInf": ext1(func(fr *frame, a []value) value {
			sign := int(asInt64(a[1]))
			if s, ok := a[0].(sym); ok {
				c := fr.i.ex.Ctx
				inf := c.FPIsInf(s.t)
				switch {
				case sign > 0:
					inf = c.And(inf, c.FPCmp("fp.gt", s.t, c.FPC(0)))
				case sign < 0:
					inf = c.And(inf, c.FPCmp("fp.lt", s.t, c.FPC(0)))
				}
				return fr.i.mkSym(inf, types.Bool)
			}
			return math.IsInf(a[0].(float64), sign)
		}),
		"math.Inf": ext1(func(fr *frame, a []value) value { return math.Inf(int(asInt64(a[0]))) }),
		"math.NaN": ext1(func(fr *frame, a []value) value { return math.NaN() }),
		"math.Pow": func(fr *frame, a []value) (value, bool) {
			x, y := a[0], a[1]
			if yf, ok := y.(float64); ok && yf == 2 {
				// math.Pow(x, 2) is computed exactly as x*x (pow's i==2 loop: a1 = x*x).
				if s, ok := x.(sym); ok {
					return fr.i.mkSym(fr.i.ex.Ctx.FP2("fp.mul", s.t, s.t), types.Float64), true
				}
			}
			if isSym(x) || isSym(y) {
				unsupported("math.Pow with symbolic arguments other than Pow(x, 2)")
			}
			return math.Pow(x.(float64), y.(float64)), true
		},
		"math.Float64bits": ext1(func(fr *frame, a []value) value {
			if isSym(a[0]) {
				unsupported("math.Float64bits of symbolic float")
			}
			return math.Float64bits(a[0].(float64))
		}),
		"math.Float64frombits": ext1(func(fr *frame, a []value) value {
			if s, ok := a[0].(sym); ok {
				if fr.i.ex.IntMode {
					unsupported("Float64frombits in int mode")
				}
				return fr.i.mkSym(fr.i.ex.Ctx.FPFromBits(s.t), types.Float64)
			}
			return math.Float64frombits(a[0].(uint64))
		}),
		"math.Float32bits":     ext1(func(fr *frame, a []value) value { return math.Float32bits(a[0].(float32)) }),
		"math.Float32frombits": ext1(func(fr *frame, a []value) value { return math.Float32frombits(a[0].(uint32)) }),
		"math.Log":             concF1(math.Log),
		"math.Exp":             concF1(math.Exp),
		"math.Log2":            concF1(math.Log2),
		"math.Log10":           concF1(math.Log10),
		"math.Asin":            concF1(math.Asin),
		"math.Max": ext1(func(fr *frame, a []value) value {
			if isSym(a[0]) || isSym(a[1]) {
				unsupported("math.Max on symbolic floats")
			}
			return math.Max(a[0].(float64), a[1].(float64))
		}),
		"math.Min": ext1(func(fr *frame, a []value) value {
			if isSym(a[0]) || isSym(a[1]) {
				unsupported("math.Min on symbolic floats")
			}
			return math.Min(a[0].(float64), a[1].(float64))
		}),

		// ---- internal/bytealg ----
		"internal/bytealg.IndexByte":       ext1(func(fr *frame, a []value) value { return seqIndexByte(fr.i, a[0].([]value), a[1]) }),
		"internal/bytealg.IndexByteString": ext1(func(fr *frame, a []value) value { return seqIndexByte(fr.i, mustBytes(a[0]), a[1]) }),
		"internal/bytealg.LastIndexByte":   ext1(func(fr *frame, a []value) value { return seqLastIndexByte(fr.i, a[0].([]value), a[1]) }),
		"internal/bytealg.LastIndexByteString": ext1(func(fr *frame, a []value) value {
			return seqLastIndexByte(fr.i, mustBytes(a[0]), a[1])
		}),
		"internal/bytealg.Count":       ext1(func(fr *frame, a []value) value { return seqCount(fr.i, a[0].([]value), a[1]) }),
		"internal/bytealg.CountString": ext1(func(fr *frame, a []value) value { return seqCount(fr.i, mustBytes(a[0]), a[1]) }),
		"internal/bytealg.Equal": ext1(func(fr *frame, a []value) value {
			return fr.i.truth(strEq(fr.i, symstr{a[0].([]value)}, symstr{a[1].([]value)}))
		}),
		"internal/bytealg.Compare": ext1(func(fr *frame, a []value) value {
			return seqCompare(fr.i, a[0].([]value), a[1].([]value))
		}),
		"internal/bytealg.CompareString": ext1(func(fr *frame, a []value) value {
			return seqCompare(fr.i, mustBytes(a[0]), mustBytes(a[1]))
		}),
		"strings.Compare": ext1(func(fr *frame, a []value) value {
			return seqCompare(fr.i, mustBytes(a[0]), mustBytes(a[1]))
		}),
		"internal/bytealg.Index":       ext1(func(fr *frame, a []value) value { return seqIndex(fr.i, a[0].([]value), a[1].([]value)) }),
		"internal/bytealg.IndexString": ext1(func(fr *frame, a []value) value { return seqIndex(fr.i, mustBytes(a[0]), mustBytes(a[1])) }),
		"internal/bytealg.MakeNoZero": ext1(func(fr *frame, a []value) value {
			n := int(asInt64(a[0]))
			s := make([]value, n)
			for k := range s {
				s[k] = uint8(0)
			}
			return s
		}),
		"internal/bytealg.Cutover": ext1(func(fr *frame, a []value) value { return 1 << 30 }),
		"strings.Index":            ext1(func(fr *frame, a []value) value { return seqIndex(fr.i, mustBytes(a[0]), mustBytes(a[1])) }),
		"bytes.Index":              ext1(func(fr *frame, a []value) value { return seqIndex(fr.i, a[0].([]value), a[1].([]value)) }),
		"bytes.Equal": ext1(func(fr *frame, a []value) value {
			return strEq(fr.i, symstr{a[0].([]value)}, symstr{a[1].([]value)})
		}),
		"(*strings.Builder).copyCheck": noop,
		"internal/abi.NoEscape":        ext1(func(fr *frame, a []value) value { return a[0] }),
		"internal/abi.Escape":          ext1(func(fr *frame, a []value) value { return a[0] }),
		"internal/stringslite.Clone":   ext1(func(fr *frame, a []value) value { return a[0] }),
		"strings.Clone":                ext1(func(fr *frame, a []value) value { return a[0] }),
		"internal/race.Enabled":        noop,

		"github.com/mailru/easyjson/jlexer.bytesToStr": ext1(func(fr *frame, a []value) value { return mkStr(a[0].([]value)) }),

		// ---- runtime ----
		"runtime.KeepAlive":    noop,
		"runtime.SetFinalizer": noop,
		"runtime.Gosched":      noop,
		"runtime.GC":           noop,
		"runtime.GOMAXPROCS":   ext1(func(fr *frame, a []value) value { return 16 }),
		"runtime.NumCPU":       ext1(func(fr *frame, a []value) value { return 16 }),
		"internal/godebug.New": ext1(func(fr *frame, a []value) value { return (*value)(nil) }),
		"(*internal/godebug.Setting).Value": ext1(func(fr *frame, a []value) value {
			return ""
		}),
		"(*internal/godebug.Setting).IncNonDefault": noop,

		// ---- strconv summaries on symbolic arguments ----
		"strconv.Itoa":       tagFormat("itoa", 0),
		"strconv.FormatInt":  tagFormat("itoa", 1),
		"strconv.FormatUint": tagFormat("utoa", 1),
		"strconv.Atoi":       tagParse(0),
		"strconv.ParseInt":   tagParse(1),
		"strconv.ParseUint":  tagParse(2),

		// ---- net: address syntax helpers, natively on concrete strings ----
		"net.ParseIP": ext1(func(fr *frame, a []value) value {
			s, ok := a[0].(string)
			if !ok {
				unsupported("net.ParseIP of a symbolic string")
			}
			ip := net.ParseIP(s)
			if ip == nil {
				return []value(nil)
			}
			out := make([]value, len(ip))
			for k, b := range ip {
				out[k] = b
			}
			return out
		}),
		"(net.IP).String": ext1(func(fr *frame, a []value) value {
			in, _ := a[0].([]value)
			ip := make(net.IP, len(in))
			for k, b := range in {
				cb, ok := b.(uint8)
				if !ok {
					unsupported("net.IP.String of symbolic bytes")
				}
				ip[k] = cb
			}
			return ip.String()
		}),
		"(net.IP).To4": ext1(func(fr *frame, a []value) value {
			in := a[0].([]value)
			ip := make(net.IP, len(in))
			for k, b := range in {
				cb, ok := b.(uint8)
				if !ok {
					unsupported("net.IP.To4 of symbolic bytes")
				}
				ip[k] = cb
			}
			r := ip.To4()
			if r == nil {
				return []value(nil)
			}
			out := make([]value, len(r))
			for k, b := range r {
				out[k] = b
			}
			return out
		}),

		// ---- base64 summary on symbolic payloads ----
		"(*encoding/base64.Encoding).EncodeToString": func(fr *frame, a []value) (value, bool) {
			src := a[1].([]value)
			for _, b := range src {
				if isSym(b) {
					return tagstr{fn: "b64", arg: append([]value(nil), src...)}, true
				}
			}
			return nil, false
		},
		"(*encoding/base64.Encoding).DecodeString": func(fr *frame, a []value) (value, bool) {
			if t, ok := a[1].(tagstr); ok && t.fn == "b64" {
				return tuple{append([]value(nil), t.arg.([]value)...), iface{}}, true
			}
			return nil, false
		},

		// ---- errors ----
		"errors.Is": ext1(extErrorsIs),
		"errors.As": ext1(extErrorsAs),

		// ---- sort (reflection-based swapper replaced) ----
		"sort.Slice":       ext1(extSortSlice),
		"sort.SliceStable": ext1(extSortSlice),

		// ---- fmt ----
		"fmt.Sprintf": ext1(func(fr *frame, a []value) value { return fmtSprintf(fr, a[0], a[1].([]value)) }),
		"fmt.Errorf":  ext1(extErrorf),
		"fmt.Sprint": ext1(func(fr *frame, a []value) value {
			return fmt.Sprint(nativeArgs(fr, a[0].([]value))...)
		}),
		"fmt.Sprintln": ext1(func(fr *frame, a []value) value {
			return fmt.Sprintln(nativeArgs(fr, a[0].([]value))...)
		}),
		"fmt.Fprintf": ext1(func(fr *frame, a []value) value {
			s := fmtSprintf(fr, a[1], a[2].([]value))
			return writeTo(fr, a[0], s)
		}),
		"fmt.Fprint": ext1(func(fr *frame, a []value) value {
			return writeTo(fr, a[0], fmt.Sprint(nativeArgs(fr, a[1].([]value))...))
		}),
		"fmt.Fprintln": ext1(func(fr *frame, a []value) value {
			return writeTo(fr, a[0], fmt.Sprintln(nativeArgs(fr, a[1].([]value))...))
		}),
	} {
		externals[k] = v
	}
	registerSyncStubs()
	registerTimeStubs()
}

func concF1(f func(float64) float64) externalFn {
	return ext1(func(fr *frame, a []value) value {
		if isSym(a[0]) {
			unsupported("transcendental function of symbolic float")
		}
		return f(a[0].(float64))
	})
}

func fpUnary(op string, native func(float64) float64) externalFn {
	return ext1(func(fr *frame, a []value) value {
		if s, ok := a[0].(sym); ok {
			return fr.i.mkSym(fr.i.ex.Ctx.FP1(op, s.t), types.Float64)
		}
		return native(a[0].(float64))
	})
}

// fpUninterp models a transcendental function as an uninterpreted function
// with the range contract |f(x)| <= 1.
func fpUninterp(name string, native func(float64) float64) externalFn {
	return ext1(func(fr *frame, a []value) value {
		s, ok := a[0].(sym)
		if !ok {
			return native(a[0].(float64))
		}
		c := fr.i.ex.Ctx
		r := c.App(name, smt.FP64, s.t)
		fr.i.ex.assume(c.And(c.FPCmp("fp.leq", r, c.FPC(1)), c.FPCmp("fp.geq", r, c.FPC(-1))))
		return fr.i.mkSym(r, types.Float64)
	})
}

func mustBytes(v value) []value {
	b, ok := bytesOf(v)
	if !ok {
		unsupported("byte access to %T", v)
	}
	return b
}

func byteEq(i *interpreter, a, b value) bool {
	return i.truth(i.symOrConcreteEq(a, b))
}

func seqIndexByte(i *interpreter, s []value, c value) value {
	for k := range s {
		if byteEq(i, s[k], c) {
			return k
		}
	}
	return -1
}

func seqLastIndexByte(i *interpreter, s []value, c value) value {
	for k := len(s) - 1; k >= 0; k-- {
		if byteEq(i, s[k], c) {
			return k
		}
	}
	return -1
}

func seqCount(i *interpreter, s []value, c value) value {
	n := 0
	for k := range s {
		if byteEq(i, s[k], c) {
			n++
		}
	}
	return n
}

func seqIndex(i *interpreter, s, sub []value) value {
	for k := 0; k+len(sub) <= len(s); k++ {
		if i.truth(strEq(i, symstr{s[k : k+len(sub)]}, symstr{sub})) {
			return k
		}
	}
	return -1
}

func seqCompare(i *interpreter, a, b []value) value {
	n := len(a)
	if len(b) < n {
		n = len(b)
	}
	for k := 0; k < n; k++ {
		if byteEq(i, a[k], b[k]) {
			continue
		}
		if i.truth(i.cmpBytes(token.LSS, a[k], b[k])) {
			return -1
		}
		return 1
	}
	switch {
	case len(a) < len(b):
		return -1
	case len(a) > len(b):
		return 1
	}
	return 0
}

// tagFormat summarises strconv formatters on symbolic arguments (base 10).
func tagFormat(fn string, baseArg int) externalFn {
	return func(fr *frame, a []value) (value, bool) {
		if !isSym(a[0]) {
			return nil, false // interpret the real code on concrete arguments
		}
		if baseArg > 0 && asInt64(a[baseArg]) != 10 {
			unsupported("strconv format of symbolic value in base != 10")
		}
		return tagstr{fn: fn, arg: a[0]}, true
	}
}

// tagParse inverts a tagFormat-produced string; anything else is interpreted.
// mode 0: Atoi, 1: ParseInt, 2: ParseUint.
func tagParse(mode int) externalFn {
	return func(fr *frame, a []value) (value, bool) {
		t, ok := a[0].(tagstr)
		if !ok {
			return nil, false
		}
		i := fr.i
		bits := 64
		if mode != 0 {
			if asInt64(a[1]) != 10 {
				unsupported("strconv parse of summarised string in base != 10")
			}
			bits = int(asInt64(a[2]))
			if bits == 0 {
				bits = 64
			}
		}
		wantSigned := mode != 2
		src := t.arg.(sym)
		_, srcSigned, _ := kindInfo(src.k)
		if (t.fn == "itoa") != srcSigned {
			unsupported("inconsistent summarised string")
		}
		dstK := types.Int64
		if mode == 0 {
			dstK = types.Int
		}
		if !wantSigned {
			dstK = types.Uint64
		}
		// widen the source to 64 bits of its own signedness
		wide := i.symConv(map[bool]types.BasicKind{true: types.Int64, false: types.Uint64}[srcSigned], src)
		c := i.ex.Ctx
		// does the value fit into the requested type?
		var fits value = true
		lo, hi := rangeOf(bits, wantSigned)
		cmp := func(op token.Token, x value, n int64, u uint64, useU bool) value {
			k, _ := kindOf(x)
			var cst value
			if useU {
				cst = concreteOfKind(k, u)
			} else {
				cst = concreteOfKind(k, uint64(n))
			}
			if isSym(x) {
				return i.symBinop(op, x, cst)
			}
			return binop(i, op, nil, x, cst)
		}
		if srcSigned {
			if !wantSigned {
				fits = cmp(token.GEQ, wide, 0, 0, false)
				if bits < 64 {
					fits = i.and(fits, cmp(token.LEQ, wide, hi.Int64(), 0, false))
				}
			} else if bits < 64 {
				fits = i.and(cmp(token.GEQ, wide, lo.Int64(), 0, false), cmp(token.LEQ, wide, hi.Int64(), 0, false))
			}
		} else {
			if wantSigned {
				fits = cmp(token.LEQ, wide, 0, hi.Uint64(), true)
			} else if bits < 64 {
				fits = cmp(token.LEQ, wide, 0, hi.Uint64(), true)
			}
		}
		_ = c
		errT := fr.i.errorOf("strconv: value out of range")
		if i.truth(fits) {
			var res value
			if ws, ok := wide.(sym); ok {
				res = i.symConv(dstK, ws)
			} else {
				res = concreteOfKind(dstK, rawBits(wide))
			}
			return tuple{res, iface{}}, true
		}
		return tuple{concreteOfKind(dstK, 0), errT}, true
	}
}

func (i *interpreter) and(a, b value) value {
	ab, ok1 := a.(bool)
	bb, ok2 := b.(bool)
	switch {
	case ok1 && ok2:
		return ab && bb
	case ok1:
		if !ab {
			return false
		}
		return b
	case ok2:
		if !bb {
			return false
		}
		return a
	}
	return i.mkSym(i.ex.Ctx.And(a.(sym).t, b.(sym).t), types.Bool)
}

// errorOf builds an error value (*errors.errorString) with the given text.
func (i *interpreter) errorOf(msg string) value {
	ep := i.prog.ImportedPackage("errors")
	if ep == nil {
		unsupported("package errors not loaded")
	}
	t := ep.Type("errorString").Type()
	var cell value = structure{msg}
	return iface{t: types.NewPointer(t), v: &cell}
}

func extErrorf(fr *frame, a []value) value {
	msg := fmtSprintf(fr, a[0], a[1].([]value))
	// %w wrapping: keep a wrapError when exactly one error operand is wrapped
	format, _ := a[0].(string)
	if strings.Contains(format, "%w") {
		fp := fr.i.prog.ImportedPackage("fmt")
		if fp != nil && fp.Type("wrapError") != nil {
			var wrapped value
			for _, x := range a[1].([]value) {
				if it, ok := x.(iface); ok && it.t != nil && types.Implements(it.t, errorIface()) {
					wrapped = it
				}
			}
			if wrapped != nil {
				var cell value = structure{msg, wrapped}
				return iface{t: types.NewPointer(fp.Type("wrapError").Type()), v: &cell}
			}
		}
	}
	return fr.i.errorOf(msg.(string))
}

func errorIface() *types.Interface {
	return types.Universe.Lookup("error").Type().Underlying().(*types.Interface)
}

func extErrorsIs(fr *frame, a []value) value {
	err, target := a[0].(iface), a[1].(iface)
	i := fr.i
	for depth := 0; depth < 20; depth++ {
		if err.t == nil {
			return target.t == nil
		}
		if target.t != nil && types.Identical(err.t, target.t) && types.Comparable(err.t) {
			if i.truth(eqValue(i, err.t, err.v, target.v)) {
				return true
			}
		}
		// Unwrap() error
		m := findMethod(i, err.t, "Unwrap")
		if m == nil || m.Signature.Results().Len() != 1 {
			return false
		}
		next, ok := call(i, fr, token.NoPos, m, []value{err.v}).(iface)
		if !ok {
			return false
		}
		err = next
	}
	return false
}

// extErrorsAs implements errors.As on the interpreter's values: target is a
// non-nil pointer to a variable of type T; the first error of the Unwrap chain
// that is assignable to T is stored there. (Custom As methods are not consulted.)
func extErrorsAs(fr *frame, a []value) value {
	err, target := a[0].(iface), a[1].(iface)
	i := fr.i
	pt, ok := target.t.(*types.Pointer)
	cell, okc := target.v.(*value)
	if target.t == nil || !ok || !okc || cell == nil {
		panic(targetPanic{"errors: target must be a non-nil pointer"})
	}
	T := pt.Elem()
	_, tIsIface := T.Underlying().(*types.Interface)
	for depth := 0; depth < 20; depth++ {
		if err.t == nil {
			return false
		}
		if tIsIface {
			if types.Implements(err.t, T.Underlying().(*types.Interface)) {
				*cell = err
				return true
			}
		} else if types.Identical(err.t, T) {
			store(T, cell, err.v)
			return true
		}
		if m := findMethod(i, err.t, "As"); m != nil {
			unsupported("errors.As on an error with an As method")
		}
		m := findMethod(i, err.t, "Unwrap")
		if m == nil || m.Signature.Results().Len() != 1 {
			return false
		}
		next, ok := call(i, fr, token.NoPos, m, []value{err.v}).(iface)
		if !ok {
			return false
		}
		err = next
	}
	return false
}

// extSortSlice sorts the slice held in the interface argument in place with a
// stable insertion sort driven by the caller's less function; comparisons on
// symbolic values branch. (sort.Slice promises no particular order among equal
// elements; the stable one is one of the permitted outcomes.)
func extSortSlice(fr *frame, a []value) value {
	it, ok := a[0].(iface)
	if !ok {
		unsupported("sort.Slice on %T", a[0])
	}
	xs, ok := it.v.([]value)
	if !ok {
		panic(targetPanic{"sort.Slice: argument is not a slice"})
	}
	less := a[1]
	for k := 1; k < len(xs); k++ {
		for j := k; j > 0; j-- {
			if !fr.i.truth(call(fr.i, fr, token.NoPos, less, []value{j, j - 1})) {
				break
			}
			xs[j], xs[j-1] = xs[j-1], xs[j]
		}
	}
	return nil
}

// ---- fmt support ----

type fmtArg struct {
	str func() string
	num interface{}
}

func (a fmtArg) Format(f fmt.State, verb rune) {
	switch verb {
	case 's', 'v', 'q', 'x', 'X', 'w':
		if verb == 'w' {
			verb = 'v'
		}
		fmt.Fprintf(f, fmt.FormatString(f, verb), a.str())
	default:
		fmt.Fprintf(f, fmt.FormatString(f, verb), a.num)
	}
}

func nativeArgs(fr *frame, args []value) []interface{} {
	out := make([]interface{}, len(args))
	for k, a := range args {
		out[k] = nativeArg(fr, a)
	}
	return out
}

func nativeArg(fr *frame, a value) interface{} {
	switch a := a.(type) {
	case iface:
		if a.t == nil {
			return nil
		}
		for _, name := range []string{"Error", "String"} {
			if m := findMethod(fr.i, a.t, name); m != nil && m.Signature.Params().Len() == 0 && m.Signature.Results().Len() == 1 {
				recv := a.v
				return fmtArg{str: func() string {
					r := call(fr.i, fr, token.NoPos, m, []value{recv})
					return fmt.Sprint(nativeArg(fr, r))
				}, num: nativeArg(fr, a.v)}
			}
		}
		return nativeArg(fr, a.v)
	case sym:
		return "⟨sym⟩"
	case symstr:
		var sb strings.Builder
		for _, b := range a.b {
			if cb, ok := b.(uint8); ok {
				sb.WriteByte(cb)
			} else {
				sb.WriteString("⟨?⟩")
			}
		}
		return sb.String()
	case tagstr:
		return "⟨" + a.fn + "⟩"
	case []value:
		allBytes := len(a) > 0
		for _, x := range a {
			if _, ok := x.(uint8); !ok {
				allBytes = false
			}
		}
		if allBytes {
			bs := make([]byte, len(a))
			for k, x := range a {
				bs[k] = x.(uint8)
			}
			return bs
		}
		return nativeArgs(fr, a)
	case structure:
		return nativeArgs(fr, a)
	case array:
		return nativeArgs(fr, a)
	case *value:
		if a == nil {
			return nil
		}
		return fmt.Sprintf("%p", a)
	}
	return a
}

func fmtSprintf(fr *frame, format value, args []value) value {
	f, ok := format.(string)
	if !ok {
		unsupported("fmt with symbolic format string")
	}
	return fmt.Sprintf(f, nativeArgs(fr, args)...)
}

// writeTo calls w.Write([]byte(s)) on an interpreted io.Writer.
func writeTo(fr *frame, w value, s value) value {
	it := w.(iface)
	if it.t == nil {
		panic(targetPanic{"invalid memory address or nil pointer dereference (nil io.Writer)"})
	}
	m := findMethod(fr.i, it.t, "Write")
	if m == nil {
		unsupported("io.Writer without Write method: %v", it.t)
	}
	return call(fr.i, fr, token.NoPos, m, []value{it.v, strBytes(s.(string))})
}
