package symgo

// Strings with symbolic bytes. A Go string whose bytes are all concrete stays
// a native Go string; otherwise it is a symstr: concrete length, element-wise
// symbolic contents. tagstr is the result of a summarised injective formatter
// (strconv.Itoa ...) applied to a symbolic argument.

import (
	"fmt"
	"go/token"
	"go/types"
	"math"
	"strconv"

	"verif/engine/smt"
)

func mathFloat64bits(f float64) uint64 { return math.Float64bits(f) }

type symstr struct{ b []value }

// tagstr is f(arg) for an injective summarised function f.
type tagstr struct {
	fn  string // "itoa" (signed decimal) | "utoa" (unsigned decimal) | "b64" | ...
	arg value  // sym scalar, or []value for byte payloads
}

func strBytes(s string) []value {
	b := make([]value, len(s))
	for k := 0; k < len(s); k++ {
		b[k] = s[k]
	}
	return b
}

// mkStr builds a string value from bytes (copying).
func mkStr(b []value) value {
	conc := true
	for _, x := range b {
		if _, ok := x.(uint8); !ok {
			conc = false
			break
		}
	}
	if conc {
		bs := make([]byte, len(b))
		for k, x := range b {
			bs[k] = x.(uint8)
		}
		return string(bs)
	}
	return symstr{append([]value(nil), b...)}
}

func bytesOf(v value) ([]value, bool) {
	switch v := v.(type) {
	case string:
		return strBytes(v), true
	case symstr:
		return v.b, true
	}
	return nil, false
}

func isStrVal(v value) bool {
	switch v.(type) {
	case string, symstr, tagstr:
		return true
	}
	return false
}

func (t tagstr) length(i *interpreter) value {
	unsupported("len of summarised string %s(...)", t.fn)
	return nil
}

// strEq returns x == y as bool or symbolic bool.
func strEq(i *interpreter, x, y value) value {
	c := i.ex.Ctx
	tx, okx := x.(tagstr)
	ty, oky := y.(tagstr)
	switch {
	case okx && oky:
		if tx.fn != ty.fn {
			unsupported("comparison of %s(...) with %s(...)", tx.fn, ty.fn)
		}
		return tagArgEq(i, tx.arg, ty.arg)
	case okx:
		return tagEqConcrete(i, tx, y)
	case oky:
		return tagEqConcrete(i, ty, x)
	}
	bx, _ := bytesOf(x)
	by, _ := bytesOf(y)
	if len(bx) != len(by) {
		return false
	}
	acc := c.BoolC(true)
	for k := range bx {
		r := i.symOrConcreteEq(bx[k], by[k])
		if b, ok := r.(bool); ok {
			if !b {
				return false
			}
			continue
		}
		acc = c.And(acc, r.(sym).t)
	}
	return i.mkSym(acc, types.Bool)
}

func (i *interpreter) symOrConcreteEq(a, b value) value {
	if isSym(a) || isSym(b) {
		return i.symBinop(token.EQL, a, b)
	}
	return a == b
}

func tagArgEq(i *interpreter, a, b value) value {
	as, ok1 := a.([]value)
	bs, ok2 := b.([]value)
	if ok1 && ok2 {
		return strEq(i, symstr{as}, symstr{bs})
	}
	return i.symOrConcreteEq(a, b)
}

func tagEqConcrete(i *interpreter, t tagstr, other value) value {
	s, ok := other.(string)
	if !ok {
		unsupported("comparison of %s(...) with symbolic bytes", t.fn)
	}
	switch t.fn {
	case "itoa":
		n, err := strconv.ParseInt(s, 10, 64)
		if err != nil || strconv.FormatInt(n, 10) != s {
			return false
		}
		k, _ := kindOf(t.arg)
		return i.symOrConcreteEq(t.arg, concreteOfKind(k, uint64(n)))
	case "utoa":
		n, err := strconv.ParseUint(s, 10, 64)
		if err != nil || strconv.FormatUint(n, 10) != s {
			return false
		}
		k, _ := kindOf(t.arg)
		bits, _, _ := kindInfo(k)
		if bits < 64 && n > maskBits(bits) {
			return false
		}
		return i.symOrConcreteEq(t.arg, concreteOfKind(k, n))
	}
	if s == "" {
		// every summarised formatter used here yields a non-empty string
		// except b64 of an empty payload
		if t.fn == "b64" {
			return len(t.arg.([]value)) == 0
		}
		return false
	}
	unsupported("comparison of %s(...) with %q", t.fn, s)
	return nil
}

func strConcat(x, y value) value {
	if _, ok := x.(tagstr); ok {
		if s, ok := y.(string); ok && s == "" {
			return x
		}
		unsupported("concatenation with summarised string")
	}
	if _, ok := y.(tagstr); ok {
		if s, ok := x.(string); ok && s == "" {
			return y
		}
		unsupported("concatenation with summarised string")
	}
	bx, _ := bytesOf(x)
	by, _ := bytesOf(y)
	return mkStr(append(append([]value(nil), bx...), by...))
}

// strLess returns x < y (lexicographic on bytes).
func strLess(i *interpreter, x, y value) value {
	c := i.ex.Ctx
	bx, ok1 := bytesOf(x)
	by, ok2 := bytesOf(y)
	if !ok1 || !ok2 {
		unsupported("ordering of summarised strings")
	}
	// result = OR_k (prefix equal up to k) ∧ x[k] < y[k]  ∨ (x is proper prefix of y)
	res := c.BoolC(false)
	pre := c.BoolC(true)
	n := len(bx)
	if len(by) < n {
		n = len(by)
	}
	for k := 0; k < n; k++ {
		lt := i.term(i.cmpBytes(token.LSS, bx[k], by[k]))
		eq := i.term(i.symOrConcreteEq(bx[k], by[k]))
		res = c.Or(res, c.And(pre, lt))
		pre = c.And(pre, eq)
	}
	if len(bx) < len(by) {
		res = c.Or(res, pre)
	}
	return i.mkSym(res, types.Bool)
}

func (i *interpreter) cmpBytes(op token.Token, a, b value) value {
	if isSym(a) || isSym(b) {
		return i.symBinop(op, a, b)
	}
	switch op {
	case token.LSS:
		return a.(uint8) < b.(uint8)
	}
	panic("cmpBytes")
}

func strIndex(i *interpreter, x value, idx value) value {
	b, _ := bytesOf(x)
	if s, ok := idx.(sym); ok {
		if p, ok := i.tablePtr(b, s); ok {
			return p.load(i)
		}
	}
	return b[i.index(idx, len(b))]
}

// symstrIter ranges over a symstr; symbolic bytes must be ASCII on the path.
type symstrIter struct {
	i   *interpreter
	s   symstr
	pos int
}

func (it *symstrIter) next() tuple {
	if it.pos >= len(it.s.b) {
		return tuple{false, nil, nil}
	}
	k := it.pos
	b := it.s.b[k]
	if cb, ok := b.(uint8); ok {
		if cb < 0x80 {
			it.pos++
			return tuple{true, k, rune(cb)}
		}
		unsupported("range over string with concrete non-ASCII byte next to symbolic bytes")
	}
	it.i.requireASCII(b.(sym))
	it.pos++
	return tuple{true, k, it.i.symConv(types.Int32, b.(sym))}
}

// requireASCII makes sure a symbolic byte is < 0x80 on this path; the
// non-ASCII side is outside what the engine models (UTF-8 decoding of
// symbolic bytes) and ends the path as unsupported.
func (i *interpreter) requireASCII(b sym) {
	c := i.ex.Ctx
	var lt *smt.Term
	if i.ex.IntMode {
		lt = c.IntCmp("<", b.t, c.IntC(0x80))
	} else {
		lt = c.BVCmp("bvult", b.t, c.BVC(8, 0x80))
	}
	if !i.ex.Branch(lt) {
		unsupported("symbolic non-ASCII byte in UTF-8 decoding position")
	}
}

// symBinopHook intercepts binary operators whose operands are symbolic
// scalars, strings with symbolic content, or aggregates that may contain them.
func symBinopHook(i *interpreter, op token.Token, t types.Type, x, y value) (value, bool) {
	if isSym(x) || isSym(y) {
		return i.symBinop(op, x, y), true
	}
	if isStrVal(x) && isStrVal(y) {
		_, cx := x.(string)
		_, cy := y.(string)
		if cx && cy {
			return nil, false
		}
		switch op {
		case token.ADD:
			return strConcat(x, y), true
		case token.EQL:
			return strEq(i, x, y), true
		case token.NEQ:
			return i.not(strEq(i, x, y)), true
		case token.LSS:
			return strLess(i, x, y), true
		case token.GTR:
			return strLess(i, y, x), true
		case token.LEQ:
			return i.not(strLess(i, y, x)), true
		case token.GEQ:
			return i.not(strLess(i, x, y)), true
		}
		unsupported("string op %s on symbolic strings", op)
	}
	if op == token.EQL || op == token.NEQ {
		switch x.(type) {
		case structure, array, iface:
			r := eqValue(i, t, x, y)
			if op == token.NEQ {
				r = i.not(r)
			}
			return r, true
		}
	}
	if _, ok := x.(mathint); ok {
		unsupported("operator %s on verif_mi (use verif_mi_* functions)", op)
	}
	return nil, false
}

func (i *interpreter) not(v value) value {
	switch v := v.(type) {
	case bool:
		return !v
	case sym:
		return i.mkSym(i.ex.Ctx.Not(v.t), types.Bool)
	}
	panic(fmt.Sprintf("not of %T", v))
}

// symConvHook intercepts conversions involving symbolic data.
func symConvHook(i *interpreter, utDst, utSrc types.Type, x value) (value, bool) {
	switch x := x.(type) {
	case sym:
		if b, ok := utDst.(*types.Basic); ok {
			if b.Kind() == types.String {
				// string(rune): only the ASCII range is modelled
				c := i.ex.Ctx
				var ascii *smt.Term
				if i.ex.IntMode {
					ascii = c.And(c.IntCmp(">=", x.t, c.IntC(0)), c.IntCmp("<", x.t, c.IntC(0x80)))
				} else {
					bits, _, _ := kindInfo(x.k)
					ascii = c.BVCmp("bvult", x.t, c.BVC(bits, 0x80))
				}
				if !i.ex.Branch(ascii) {
					unsupported("conversion of a symbolic non-ASCII code point to string")
				}
				return mkStr([]value{i.symConv(types.Uint8, x)}), true
			}
			return i.symConv(b.Kind(), x), true
		}
		unsupported("conversion of symbolic scalar to %s", utDst)
	case symstr:
		switch d := utDst.(type) {
		case *types.Basic:
			return x, true
		case *types.Slice:
			if d.Elem().Underlying().(*types.Basic).Kind() == types.Byte {
				return append([]value(nil), x.b...), true
			}
			// []rune: ASCII only
			var rs []value
			for _, b := range x.b {
				if cb, ok := b.(uint8); ok {
					if cb >= 0x80 {
						unsupported("[]rune of mixed non-ASCII string")
					}
					rs = append(rs, rune(cb))
					continue
				}
				i.requireASCII(b.(sym))
				rs = append(rs, i.symConv(types.Int32, b.(sym)))
			}
			return rs, true
		}
	case tagstr:
		if _, ok := utDst.(*types.Basic); ok {
			return x, true
		}
		unsupported("conversion of summarised string %s(...) to %s", x.fn, utDst)
	case []value:
		if sl, ok := utSrc.(*types.Slice); ok {
			if db, ok := utDst.(*types.Basic); ok && db.Kind() == types.String {
				if eb, ok := sl.Elem().Underlying().(*types.Basic); ok && eb.Kind() == types.Byte {
					return mkStr(x), true
				}
			}
		}
	}
	return nil, false
}
