package symgo

import (
	"fmt"
	"go/types"
	"sort"

	"verif/engine/smt"
)

func mustDeref(t types.Type) types.Type {
	if p, ok := t.Underlying().(*types.Pointer); ok {
		return p.Elem()
	}
	panic(fmt.Sprintf("not a pointer: %v", t))
}

// symElemPtr is &tab[idx] for a symbolic idx into a table of concrete scalars.
type symElemPtr struct {
	tab []value
	idx sym
}

// tablePtr returns a symbolic element pointer when arr is a (largish) table of
// concrete scalars; small or non-scalar sequences are handled by forking.
func (i *interpreter) tablePtr(arr []value, idx sym) (symElemPtr, bool) {
	if len(arr) < 5 {
		return symElemPtr{}, false
	}
	var k0 types.BasicKind
	for n, e := range arr {
		if isSym(e) {
			return symElemPtr{}, false
		}
		k, ok := kindOf(e)
		if !ok || k == types.Float32 {
			return symElemPtr{}, false
		}
		if n == 0 {
			k0 = k
		} else if k != k0 {
			return symElemPtr{}, false
		}
	}
	i.boundsCheck(idx, len(arr))
	return symElemPtr{arr, idx}, true
}

func (i *interpreter) idxTerm(idx sym) (*smt.Term, func(int) *smt.Term) {
	c := i.ex.Ctx
	if i.ex.IntMode {
		return idx.t, func(n int) *smt.Term { return c.IntC(int64(n)) }
	}
	bits, _, _ := kindInfo(idx.k)
	return idx.t, func(n int) *smt.Term { return c.BVC(bits, uint64(n)) }
}

// boundsCheck emits the obligation 0 <= idx < n.
func (i *interpreter) boundsCheck(idx sym, n int) {
	c := i.ex.Ctx
	var bad *smt.Term
	if i.ex.IntMode {
		bad = c.Or(c.IntCmp("<", idx.t, c.IntC(0)), c.IntCmp(">=", idx.t, c.IntC(int64(n))))
	} else {
		bits, signed, _ := kindInfo(idx.k)
		if bits < 64 && uint64(n) > maskBits(bits) {
			// every non-negative value of the index type is in range
			if !signed {
				return
			}
			bad = c.BVCmp("bvslt", idx.t, c.BVC(bits, 0))
		} else {
			// unsigned comparison covers negative values of signed indices too
			bad = c.BVCmp("bvule", c.BVC(bits, uint64(n)), idx.t)
		}
	}
	i.ex.requireNot(bad, fmt.Sprintf("index out of range [sym] with length %d", n))
}

func (p symElemPtr) load(i *interpreter) value {
	c := i.ex.Ctx
	k, _ := kindOf(p.tab[0])
	// group indices by value; the most frequent value is the default
	groups := map[uint64][]int{}
	for n, e := range p.tab {
		u := rawBits(e)
		groups[u] = append(groups[u], n)
	}
	type g struct {
		u  uint64
		ix []int
	}
	var gs []g
	for u, ix := range groups {
		gs = append(gs, g{u, ix})
	}
	sort.Slice(gs, func(a, b int) bool {
		if len(gs[a].ix) != len(gs[b].ix) {
			return len(gs[a].ix) > len(gs[b].ix)
		}
		return gs[a].u < gs[b].u
	})
	it, cst := i.idxTerm(p.idx)
	res := i.term(concreteOfKind(k, gs[0].u))
	for _, gr := range gs[1:] {
		var conds []*smt.Term
		for _, n := range gr.ix {
			conds = append(conds, c.Eq(it, cst(n)))
		}
		res = c.Ite(c.Or(conds...), i.term(concreteOfKind(k, gr.u)), res)
	}
	return i.mkSym(res, k)
}

// index resolves an index value against a sequence of length n.
func (i *interpreter) index(idx value, n int) int {
	if s, ok := idx.(sym); ok {
		i.boundsCheck(s, n)
		return int(asInt64(i.concretize(s, 0, int64(n), "index")))
	}
	k := asInt64(idx)
	if k < 0 || k >= int64(n) {
		panic(targetPanic{fmt.Sprintf("index out of range [%d] with length %d", k, n)})
	}
	return int(k)
}

// concretize turns a symbolic integer into a concrete one by forking over its
// feasible values (model-guided, so the cost is proportional to the number of
// feasible values, not to the range).
func (i *interpreter) concretize(v value, lo, hi int64, what string) value {
	s, ok := v.(sym)
	if !ok {
		return v
	}
	_, signed, _ := kindInfo(s.k)
	u := i.ex.ChooseValue(s.t, signed, what)
	return concreteOfKind(s.k, u)
}

func loadAddr(i *interpreter, T types.Type, addr value) value {
	switch a := addr.(type) {
	case *value:
		if a == nil {
			panic(targetPanic{"invalid memory address or nil pointer dereference"})
		}
		if i.tree != nil {
			if _, shared := i.tree.shared[a]; shared {
				return i.tree.cellOp(i.curFrame, "load", a, nil, true, "")
			}
			if v, done := i.tree.sharedAccess(i.curFrame, a, false, nil); done {
				return v
			}
		}
		return load(T, a)
	case symElemPtr:
		return a.load(i)
	}
	panic(fmt.Sprintf("load through %T", addr))
}

func storeAddr(i *interpreter, T types.Type, addr value, v value) {
	switch a := addr.(type) {
	case *value:
		if a == nil {
			panic(targetPanic{"invalid memory address or nil pointer dereference"})
		}
		if i.tree != nil {
			if _, shared := i.tree.shared[a]; shared {
				i.tree.cellOp(i.curFrame, "store", a, []value{v}, true, "")
				return
			}
			if _, done := i.tree.sharedAccess(i.curFrame, a, true, v); done {
				return
			}
		}
		store(T, a, v)
		return
	case symElemPtr:
		k := int(asInt64(i.concretize(a.idx, 0, int64(len(a.tab)), "store index")))
		a.tab[k] = v
		return
	}
	panic(fmt.Sprintf("store through %T", addr))
}

// ite selects between two values under a possibly symbolic condition.
func (i *interpreter) ite(cond, a, b value) value {
	switch c := cond.(type) {
	case bool:
		if c {
			return a
		}
		return b
	case sym:
		ka, ok1 := kindOf(a)
		kb, ok2 := kindOf(b)
		if ok1 && ok2 && ka == kb {
			return i.mkSym(i.ex.Ctx.Ite(c.t, i.term(a), i.term(b)), ka)
		}
		if i.ex.Branch(c.t) {
			return a
		}
		return b
	}
	panic(fmt.Sprintf("ite on %T", cond))
}
