package symgo

// Bounded model checking of the product of thread trees: the schedule is a
// vector of solver variables (acting instance and edge per step), state is
// finite-domain bit-vectors, stutter is closed, and adjacent independent
// events are restricted to one canonical order.

import (
	"context"
	"fmt"
	"os"
	"os/exec"
	"regexp"
	"sort"
	"strconv"
	"strings"
	"time"

	"verif/engine/smt"
)

type bmcEdge struct {
	id     int
	from   int
	to     int
	guards []*smt.Term // thread-local conditions accumulated from tau events
	ev     Event
}

type bmcTmpl struct {
	name      string
	nodes     int // node ids 1..nodes (0 = inactive)
	edges     []*bmcEdge
	vars      map[string]bool // symbols private to an instance (renamed per instance)
	term      map[int]string  // terminal node kind: exit fail panic cut
	msg       map[int]string
	out       map[int][]*bmcEdge
	depth     int
	treeNodes int
	instN     int
	first     int // index of the first instance
}

type BMC struct {
	tr                         *TreeResult
	tmpls                      []*bmcTmpl
	byName                     map[string]*bmcTmpl
	insts                      []int // instance -> template index
	chans, mutexes, wgs, cells []string
	K                          int
	Stats                      map[string]interface{}
	NarrowOff                  bool
	Trace                      []string
	flagDescr                  map[string]string
	narrow                     bool
}

func evKey(e Event) string {
	id := func(t *smt.Term) int {
		if t == nil {
			return 0
		}
		return t.ID
	}
	return fmt.Sprintf("%s|%s|%d|%s|%s|%d|%d|%d|%d|%s|%v", e.Kind, e.Obj, e.Choice, e.Msg, e.Pos, id(e.Val), id(e.Old), id(e.Sym), id(e.Guard), e.Template, e.Cases)
}

// buildTemplate merges the paths of a thread into a prefix tree, folds
// thread-local tau events into the following visible edge, and then merges
// isomorphic subtrees (equal up to a shift of the occurrence indices of the
// symbols they bind) into a DAG: alternative branches that continue in the same
// way (e.g. every exit path of the pacing loop runs the same epilogue) share
// their continuation.
func buildTemplate(t *Template) *bmcTmpl {
	bt := &bmcTmpl{name: t.Name, vars: map[string]bool{}, term: map[int]string{}, msg: map[int]string{}, out: map[int][]*bmcEdge{}}
	type tnode struct {
		id    int
		kids  map[string]*tnode
		edges []*bmcEdge // out-edges in creation order
		kid   []*tnode
		exit  bool   // the thread ends here (no step of its own)
		term  string // terminal kind of the event leading here (fail/panic/cut + message)
	}
	root := &tnode{id: 1, kids: map[string]*tnode{}}
	nodes := []*tnode{nil, root}
	for _, p := range t.Paths {
		for _, v := range p.Vars {
			bt.vars[v.Name] = true
		}
		cur := root
		var guards []*smt.Term
		var gkey strings.Builder
		var lastEdge *bmcEdge
		postIdx := 0
		for _, e := range p.Events {
			if e.Kind == "tau" {
				guards = append(guards, e.Guard)
				fmt.Fprintf(&gkey, "g%d,", e.Guard.ID)
				continue
			}
			// updates of ghost cells are fused into the preceding event of the
			// thread: observation counters change atomically with the event they count
			if strings.HasPrefix(e.Obj, "cell_ghost_") && lastEdge != nil && len(guards) == 0 && lastEdge.ev.Kind != "spawn" {
				if postIdx < len(lastEdge.ev.Post) {
					if evKey(lastEdge.ev.Post[postIdx]) != evKey(e) {
						panic("bmc: non-deterministic ghost update after " + lastEdge.ev.Kind)
					}
				} else {
					lastEdge.ev.Post = append(lastEdge.ev.Post, e)
				}
				postIdx++
				continue
			}
			if e.Kind == "exit" && len(guards) == 0 {
				cur.exit = true
				continue
			}
			k := gkey.String() + evKey(e)
			kid, ok := cur.kids[k]
			if !ok {
				kid = &tnode{id: len(nodes), kids: map[string]*tnode{}}
				switch e.Kind {
				case "exit":
					kid.exit = true
				case "fail", "panic", "cut":
					kid.term = e.Kind + ":" + e.Msg
				}
				nodes = append(nodes, kid)
				cur.kids[k] = kid
				ed := &bmcEdge{from: cur.id, to: kid.id, guards: append([]*smt.Term(nil), guards...), ev: e}
				cur.edges = append(cur.edges, ed)
				cur.kid = append(cur.kid, kid)
			}
			for n, x := range cur.kid {
				if x == kid {
					lastEdge = cur.edges[n]
				}
			}
			postIdx = 0
			cur = kid
			guards = nil
			gkey.Reset()
		}
	}
	// ---- DAG minimisation ----
	plain := &bmcTmpl{vars: bt.vars}
	label := func(e *bmcEdge) string {
		var sb strings.Builder
		for _, g := range e.guards {
			sb.WriteString(plain.termText(g))
			sb.WriteByte(';')
		}
		ev := e.ev
		fmt.Fprintf(&sb, "%s|%s|%d|%s|%s|%s|%v|%v", ev.Kind, ev.Obj, ev.Choice, ev.Msg, ev.Pos, ev.Template, ev.Cases, ev.Default)
		for _, t := range []*smt.Term{ev.Val, ev.Old, ev.Sym} {
			sb.WriteByte('|')
			if t != nil {
				sb.WriteString(plain.termText(t))
			}
		}
		for _, po := range ev.Post {
			fmt.Fprintf(&sb, "+%s|%s|", po.Kind, po.Obj)
			for _, t := range []*smt.Term{po.Val, po.Sym} {
				if t != nil {
					sb.WriteString(plain.termText(t))
				}
				sb.WriteByte('|')
			}
		}
		return sb.String()
	}
	labels := map[*bmcEdge]string{}
	symRe := symNameRe
	// symbols mentioned per edge
	mention := map[*bmcEdge][]string{}
	for _, n := range nodes[1:] {
		for _, e := range n.edges {
			l := label(e)
			labels[e] = l
			seen := map[string]bool{}
			for _, m := range symRe.FindAllString(l, -1) {
				if bt.vars[m] && !seen[m] {
					seen[m] = true
					mention[e] = append(mention[e], m)
				}
			}
		}
	}
	// bound[n] = symbols first mentioned inside the subtree of n (not on the path above it)
	above := map[*tnode]map[string]bool{root: {}}
	var order []*tnode
	var walk func(n *tnode)
	walk = func(n *tnode) {
		order = append(order, n)
		for k, e := range n.edges {
			set := map[string]bool{}
			for s := range above[n] {
				set[s] = true
			}
			for _, m := range mention[e] {
				set[m] = true
			}
			above[n.kid[k]] = set
			walk(n.kid[k])
		}
	}
	walk(root)
	splitSym := func(name string) (string, int) {
		k := strings.LastIndex(name, "_")
		idx, _ := strconv.Atoi(name[k+1:])
		return name[:k], idx
	}
	// canonical signature of the subtree rooted at n
	sig := map[*tnode]string{}
	minIdx := map[*tnode]map[string]int{}
	var subtreeSyms func(n *tnode, acc map[string]int)
	subtreeSyms = func(n *tnode, acc map[string]int) {
		for k, e := range n.edges {
			for _, m := range mention[e] {
				if !above[n][m] || true {
					base, idx := splitSym(m)
					_ = base
					if cur, ok := acc[m]; !ok || idx < cur {
						acc[m] = idx
					}
				}
			}
			subtreeSyms(n.kid[k], acc)
		}
	}
	var canon func(n *tnode, rootAbove map[string]bool, shift map[string]int) string
	canon = func(n *tnode, rootAbove map[string]bool, shift map[string]int) string {
		var parts []string
		for k, e := range n.edges {
			l := symRe.ReplaceAllStringFunc(labels[e], func(m string) string {
				if !bt.vars[m] || rootAbove[m] {
					return m
				}
				base, idx := splitSym(m)
				return fmt.Sprintf("%s#%d", base, idx-shift[base])
			})
			parts = append(parts, "("+l+"→"+canon(n.kid[k], rootAbove, shift)+")")
		}
		if len(n.edges) == 0 {
			if n.exit {
				return "X"
			}
			return "." + n.term
		}
		sort.Strings(parts)
		return strings.Join(parts, "")
	}
	for idx := len(order) - 1; idx >= 0; idx-- {
		n := order[idx]
		syms := map[string]int{}
		subtreeSyms(n, syms)
		shift := map[string]int{}
		for m, i2 := range syms {
			if above[n][m] {
				continue
			}
			base, _ := splitSym(m)
			if cur, ok := shift[base]; !ok || i2 < cur {
				shift[base] = i2
			}
		}
		minIdx[n] = shift
		sig[n] = canon(n, above[n], shift)
	}
	// classes: representative = member with the largest occurrence indices
	rep := map[*tnode]*tnode{}
	bySig := map[string][]*tnode{}
	for _, n := range order {
		bySig[sig[n]] = append(bySig[sig[n]], n)
	}
	geq := func(a, b map[string]int) bool {
		for base, v := range b {
			if a[base] < v {
				return false
			}
		}
		return true
	}
	for _, members := range bySig {
		best := members[0]
		for _, m := range members[1:] {
			if geq(minIdx[m], minIdx[best]) {
				best = m
			}
		}
		for _, m := range members {
			if m == best || geq(minIdx[best], minIdx[m]) {
				rep[m] = best
			}
		}
	}
	find := func(n *tnode) *tnode {
		if r, ok := rep[n]; ok {
			return r
		}
		return n
	}
	// emit reachable representatives
	newID := map[*tnode]int{}
	var emit func(n *tnode) int
	emit = func(n *tnode) int {
		n = find(n)
		if id, ok := newID[n]; ok {
			return id
		}
		id := len(newID) + 1
		newID[n] = id
		if n.exit {
			bt.term[id] = "exit"
		}
		for k, e := range n.edges {
			to := emit(n.kid[k])
			ed := &bmcEdge{id: len(bt.edges) + 1, from: id, to: to, guards: e.guards, ev: e.ev}
			bt.edges = append(bt.edges, ed)
			bt.out[id] = append(bt.out[id], ed)
			switch e.ev.Kind {
			case "fail", "panic", "cut":
				bt.term[to] = e.ev.Kind
				bt.msg[to] = e.ev.Msg
			}
		}
		return id
	}
	emit(root)
	bt.nodes = len(newID)
	bt.treeNodes = len(nodes) - 1
	// longest path of the DAG
	memo := map[int]int{}
	var depth func(id int) int
	depth = func(id int) int {
		if d, ok := memo[id]; ok {
			return d
		}
		best := 0
		for _, e := range bt.out[id] {
			if d := 1 + depth(e.to); d > best {
				best = d
			}
		}
		memo[id] = best
		return best
	}
	bt.depth = depth(1)
	return bt
}

var symNameRe = regexp.MustCompile(`n_[A-Za-z0-9_]+_[0-9]+`)

// termText prints a term with variable names unchanged.
func (bt *bmcTmpl) termText(t *smt.Term) string {
	switch t.Op {
	case "const":
		return t.Ref()
	case "var":
		return t.Name
	}
	var sb strings.Builder
	sb.WriteString("(" + t.Op)
	for _, a := range t.Args {
		sb.WriteByte(' ')
		sb.WriteString(bt.termText(a))
	}
	sb.WriteString(")")
	return sb.String()
}

func NewBMC(tr *TreeResult, instances map[string]int) *BMC {
	b := &BMC{tr: tr, byName: map[string]*bmcTmpl{}, Stats: map[string]interface{}{}, narrow: true}
	for _, name := range tr.Order {
		bt := buildTemplate(tr.Templates[name])
		b.tmpls = append(b.tmpls, bt)
		b.byName[name] = bt
	}
	// instance counts: explicit per substring, else an upper bound from spawn counts
	for ti, bt := range b.tmpls {
		n := 0
		if ti == 0 {
			n = 1
		} else {
			for sub, c := range instances {
				if strings.Contains(bt.name, sub) {
					n = c
				}
			}
			if n == 0 {
				n = b.spawnBound(bt.name)
			}
		}
		bt.instN = n
		bt.first = len(b.insts)
		for k := 0; k < n; k++ {
			b.insts = append(b.insts, ti)
		}
	}
	var names []string
	for n := range tr.Objects {
		names = append(names, n)
	}
	sort.Strings(names)
	for _, n := range names {
		switch tr.Objects[n].Kind {
		case "chan":
			b.chans = append(b.chans, n)
		case "mutex":
			b.mutexes = append(b.mutexes, n)
		case "wg":
			b.wgs = append(b.wgs, n)
		case "cell":
			b.cells = append(b.cells, n)
		}
	}
	for ti, bt := range b.tmpls {
		_ = ti
		b.K += bt.depth * bt.instN
	}
	b.decideNarrow()
	return b
}

// spawnBound: the most spawn events of the template on any single path of any
// other thread, summed over that thread's instances.
func (b *BMC) spawnBound(name string) int {
	total := 0
	for _, other := range b.tmpls {
		best := 0
		for _, p := range b.tr.Templates[other.name].Paths {
			c := 0
			for _, e := range p.Events {
				if e.Kind == "spawn" && e.Template == name {
					c++
				}
			}
			if c > best {
				best = c
			}
		}
		n := other.instN
		if n == 0 {
			n = 1
		}
		total += best * n
	}
	if total == 0 {
		total = 1
	}
	return total
}

// ---- term printing with per-instance renaming ----

// Narrow: 64-bit values of the concurrent model (counters, sequence numbers,
// flags, free time readings that are only compared) are represented with vW
// bits. Constants must fit; terms with width-changing operators disable it.
const vW = 16

func (b *BMC) termStr(t *smt.Term, bt *bmcTmpl, inst int) string {
	switch t.Op {
	case "const":
		if b.narrow && t.S.K == smt.KBV && t.S.W == 64 {
			v := int64(t.U)
			if v >= -(1<<(vW-1)) && v < 1<<(vW-1) {
				return fmt.Sprintf("(_ bv%d %d)", uint64(v)&(1<<vW-1), vW)
			}
			panic(narrowFail{})
		}
		if b.narrow && t.S.K == smt.KBV && t.S.W != 64 {
			panic(narrowFail{})
		}
		return t.Ref()
	case "var":
		if t.Name == "verif_timebound" {
			if b.narrow {
				return fmt.Sprintf("(_ bv%d %d)", 1<<(vW-2), vW)
			}
			return fmt.Sprintf("(_ bv%d 64)", uint64(1)<<40)
		}
		// symbols of the root thread are global (other threads read the
		// configuration it created); all others are private to an instance
		if bt.vars[t.Name] && bt != b.tmpls[0] {
			return fmt.Sprintf("%s__%d", t.Name, inst)
		}
		return t.Name
	}
	if b.narrow && (strings.HasPrefix(t.Op, "(_") || t.Op == "concat" || t.Op == "bvmul" || t.Op == "bvudiv" || t.Op == "bvsdiv" || t.Op == "bvurem" || t.Op == "bvsrem" || t.Op == "bvshl" || t.Op == "bvlshr" || t.Op == "bvashr") {
		panic(narrowFail{})
	}
	var sb strings.Builder
	sb.WriteString("(" + t.Op)
	for _, a := range t.Args {
		sb.WriteByte(' ')
		sb.WriteString(b.termStr(a, bt, inst))
	}
	sb.WriteString(")")
	return sb.String()
}

type narrowFail struct{}

func (b *BMC) valSort() string {
	if b.narrow {
		return fmt.Sprintf("(_ BitVec %d)", vW)
	}
	return "(_ BitVec 64)"
}

func (b *BMC) valConst(v uint64) string {
	if b.narrow {
		return fmt.Sprintf("(_ bv%d %d)", v&(1<<vW-1), vW)
	}
	return fmt.Sprintf("(_ bv%d 64)", v)
}

func bv(w int, v int) string { return fmt.Sprintf("(_ bv%d %d)", v, w) }

const (
	pcW = 12
	edW = 12
	inW = 6
)

func and(xs ...string) string {
	var ys []string
	for _, x := range xs {
		if x == "true" || x == "" {
			continue
		}
		if x == "false" {
			return "false"
		}
		ys = append(ys, x)
	}
	switch len(ys) {
	case 0:
		return "true"
	case 1:
		return ys[0]
	}
	return "(and " + strings.Join(ys, " ") + ")"
}

func or(xs ...string) string {
	var ys []string
	for _, x := range xs {
		if x == "false" || x == "" {
			continue
		}
		if x == "true" {
			return "true"
		}
		ys = append(ys, x)
	}
	switch len(ys) {
	case 0:
		return "false"
	case 1:
		return ys[0]
	}
	return "(or " + strings.Join(ys, " ") + ")"
}

func not(x string) string {
	switch x {
	case "true":
		return "false"
	case "false":
		return "true"
	}
	return "(not " + x + ")"
}

// role of an edge with respect to a channel
type chanRole struct {
	ch       string
	send     bool
	closed   bool // receive-from-closed outcome
	nonblock bool // case of a select with default
	isDeflt  bool
}

func roleOf(e Event) (chanRole, bool) {
	switch e.Kind {
	case "send":
		return chanRole{ch: e.Obj, send: true}, true
	case "recv":
		return chanRole{ch: e.Obj, closed: e.Choice == 0}, true
	case "select":
		if e.Choice < 0 {
			return chanRole{isDeflt: true}, true
		}
		c := e.Cases[e.Choice]
		return chanRole{ch: c.Obj, send: c.Send, closed: e.Msg == "closed", nonblock: e.Default}, true
	}
	return chanRole{}, false
}

// Script generates the SMT-LIB problem for one query kind: "bad" (assertion
// failure / panic / misuse of a primitive), "cut" (a bound was too small),
// "deadlock", "race".
func (b *BMC) Script(query string, K int) (script string, flags map[string]string) {
	return b.script(query, K)
}

// decideNarrow tries to print every term of the model with narrowed values.
func (b *BMC) decideNarrow() {
	defer func() {
		if r := recover(); r != nil {
			if _, ok := r.(narrowFail); ok {
				b.narrow = false
				b.NarrowOff = true
				return
			}
			panic(r)
		}
	}()
	for _, bt := range b.tmpls {
		for _, e := range bt.edges {
			for _, g := range e.guards {
				b.termStr(g, bt, 0)
			}
			for _, ev := range append([]Event{e.ev}, e.ev.Post...) {
				for _, t := range []*smt.Term{ev.Val, ev.Old, ev.Sym} {
					if t != nil {
						b.termStr(t, bt, 0)
					}
				}
			}
		}
	}
}

func (b *BMC) script(query string, K int) (string, map[string]string) {
	var sb strings.Builder
	w := func(format string, a ...interface{}) { fmt.Fprintf(&sb, format+"\n", a...) }
	w("(set-option :produce-models true)")
	I := len(b.insts)
	// symbols
	declared := map[string]bool{}
	var declTerm func(t *smt.Term, bt *bmcTmpl, inst int)
	declTerm = func(t *smt.Term, bt *bmcTmpl, inst int) {
		if t == nil {
			return
		}
		if t.Op == "var" {
			n := b.termStr(t, bt, inst)
			if !declared[n] && t.Name != "verif_timebound" {
				declared[n] = true
				so := t.S.String()
				if b.narrow && t.S.K == smt.KBV && t.S.W == 64 {
					so = b.valSort()
				}
				w("(declare-const %s %s)", n, so)
			}
			return
		}
		for _, a := range t.Args {
			declTerm(a, bt, inst)
		}
	}
	for i := 0; i < I; i++ {
		bt := b.tmpls[b.insts[i]]
		for _, e := range bt.edges {
			for _, g := range e.guards {
				declTerm(g, bt, i)
			}
			declTerm(e.ev.Val, bt, i)
			declTerm(e.ev.Old, bt, i)
			declTerm(e.ev.Sym, bt, i)
			for _, po := range e.ev.Post {
				declTerm(po.Val, bt, i)
				declTerm(po.Sym, bt, i)
			}
		}
	}
	// state
	for k := 0; k <= K; k++ {
		for i := 0; i < I; i++ {
			w("(declare-const pc_%d_%d (_ BitVec %d))", i, k, pcW)
			w("(declare-const arr_%d_%d Bool)", i, k)
		}
		for _, c := range b.chans {
			w("(declare-const closed_%s_%d Bool)", c, k)
			if b.tr.Objects[c].Cap > 0 {
				w("(declare-const cnt_%s_%d (_ BitVec 8))", c, k)
				for j := 0; j < b.tr.Objects[c].Cap; j++ {
					w("(declare-const q_%s_%d_%d %s)", c, j, k, b.valSort())
				}
			}
		}
		for _, m := range b.mutexes {
			w("(declare-const held_%s_%d Bool)", m, k)
		}
		for _, g := range b.wgs {
			w("(declare-const wg_%s_%d (_ BitVec 8))", g, k)
		}
		for _, x := range b.cells {
			w("(declare-const val_%s_%d %s)", x, k, b.valSort())
		}
	}
	for k := 0; k < K; k++ {
		w("(declare-const st_%d Bool)", k)
		w("(declare-const ti_%d (_ BitVec %d))", k, inW)
		w("(declare-const te_%d (_ BitVec %d))", k, edW)
		w("(declare-const pi_%d (_ BitVec %d))", k, inW)
		w("(declare-const pe_%d (_ BitVec %d))", k, edW)
		for i := 0; i < I; i++ {
			w("(declare-const af_%d_%d Bool)", i, k) // the instance may have parked at its blocking operation
		}
	}
	// initial state
	for i := 0; i < I; i++ {
		if i == 0 {
			w("(assert (= pc_0_0 %s))", bv(pcW, 1))
		} else {
			w("(assert (= pc_%d_0 %s))", i, bv(pcW, 0))
		}
		w("(assert (not arr_%d_0))", i)
	}
	for _, c := range b.chans {
		w("(assert (not closed_%s_0))", c)
		if b.tr.Objects[c].Cap > 0 {
			w("(assert (= cnt_%s_0 #x00))", c)
		}
	}
	capOf := func(c string) int { return b.tr.Objects[c].Cap }
	for _, m := range b.mutexes {
		w("(assert (not held_%s_0))", m)
	}
	for _, g := range b.wgs {
		w("(assert (= wg_%s_0 #x00))", g)
	}
	for _, x := range b.cells {
		w("(assert (= val_%s_0 %s))", x, b.valConst(b.tr.Objects[x].Init))
	}

	// nodes with channel operations (an instance parked there can be a rendezvous partner)
	type nodeKey struct{ tmpl, node int }
	sendAt := map[string][]nodeKey{} // channel -> nodes offering a send
	recvAt := map[string][]nodeKey{}
	blocking := map[nodeKey]bool{}
	for ti, bt := range b.tmpls {
		for _, e := range bt.edges {
			if r, ok := roleOf(e.ev); ok && !r.isDeflt && !r.closed {
				nk := nodeKey{ti, e.from}
				if r.send {
					sendAt[r.ch] = appendUnique(sendAt[r.ch], nk)
				} else {
					recvAt[r.ch] = appendUnique(recvAt[r.ch], nk)
				}
				if !r.nonblock {
					blocking[nk] = true
				}
			}
		}
	}
	// readiness of a partner on channel c at step k, excluding instance self
	partnerReady := func(c string, wantSend bool, self int, k int) string {
		var opts []string
		src := recvAt[c]
		if wantSend {
			src = sendAt[c]
		}
		for j := 0; j < I; j++ {
			if j == self {
				continue
			}
			for _, nk := range src {
				if nk.tmpl == b.insts[j] && blocking[nk] {
					opts = append(opts, and(fmt.Sprintf("(= pc_%d_%d %s)", j, k, bv(pcW, nk.node)), fmt.Sprintf("arr_%d_%d", j, k)))
				}
			}
		}
		return or(opts...)
	}

	var badTerms, cutTerms []string
	type effect struct{ cond, val string }
	flagDescr := map[string]string{}
	flag := func(kind, descr, term string) string {
		name := fmt.Sprintf("%s_%d", kind, len(flagDescr))
		flagDescr[name] = descr
		w("(define-fun %s () Bool %s)", name, term)
		return name
	}
	var finalEnabled []string
	for k := 0; k <= K; k++ {
		if k == K && query != "deadlock" {
			break
		}
		if k == K {
			// choice variables of a virtual extra step: only the state-only
			// enabledness terms are used
			w("(declare-const ti_%d (_ BitVec %d))", k, inW)
			w("(declare-const te_%d (_ BitVec %d))", k, edW)
			w("(declare-const pi_%d (_ BitVec %d))", k, inW)
			w("(declare-const pe_%d (_ BitVec %d))", k, edW)
		}
		closedNext := map[string][]string{}
		cntEff := map[string][]effect{}
		qEff := map[string][]effect{} // key: channel "/" slot — FIFO contents of buffered channels
		heldSet := map[string][]string{}
		heldClr := map[string][]string{}
		wgEff := map[string][]effect{}
		cellEff := map[string][]effect{}
		pcEff := make([][]effect, I)
		var valid []string
		var enabled []string // state-only enabledness of each move (no choice variables)
		// posts applies the fused ghost updates of one or two edges under cond,
		// sequentially; returns the symbol-binding constraints
		type postSrc struct {
			ev   Event
			bt   *bmcTmpl
			inst int
		}
		posts := func(cond string, start map[string]string, srcs ...postSrc) string {
			cur := map[string]string{}
			for c, v := range start {
				cur[c] = v
			}
			var cons []string
			touched := map[string]bool{}
			for _, src := range srcs {
				for _, po := range src.ev.Post {
					c0, ok := cur[po.Obj]
					if !ok {
						c0 = fmt.Sprintf("val_%s_%d", po.Obj, k)
					}
					switch po.Kind {
					case "aadd":
						nv := fmt.Sprintf("(bvadd %s %s)", c0, b.termStr(po.Val, src.bt, src.inst))
						cons = append(cons, fmt.Sprintf("(= %s %s)", b.termStr(po.Sym, src.bt, src.inst), nv))
						cur[po.Obj] = nv
						touched[po.Obj] = true
					case "load":
						cons = append(cons, fmt.Sprintf("(= %s %s)", b.termStr(po.Sym, src.bt, src.inst), c0))
					case "store":
						cur[po.Obj] = b.termStr(po.Val, src.bt, src.inst)
						touched[po.Obj] = true
					default:
						panic("bmc: unsupported fused ghost operation " + po.Kind)
					}
				}
			}
			for c := range touched {
				cellEff[c] = append(cellEff[c], effect{cond, cur[c]})
			}
			return and(cons...)
		}
		act := func(i int, e int) string {
			return and(fmt.Sprintf("(= ti_%d %s)", k, bv(inW, i)), fmt.Sprintf("(= te_%d %s)", k, bv(edW, e)))
		}
		part := func(i int, e int) string {
			return and(fmt.Sprintf("(= pi_%d %s)", k, bv(inW, i)), fmt.Sprintf("(= pe_%d %s)", k, bv(edW, e)))
		}
		noPartner := fmt.Sprintf("(= pe_%d %s)", k, bv(edW, 0))
		for i := 0; i < I; i++ {
			bt := b.tmpls[b.insts[i]]
			for _, e := range bt.edges {
				var gs []string
				for _, g := range e.guards {
					gs = append(gs, b.termStr(g, bt, i))
				}
				w("(define-fun pre_%d_%d_%d () Bool %s)", i, e.id, k, and(append([]string{fmt.Sprintf("(= pc_%d_%d %s)", i, k, bv(pcW, e.from))}, gs...)...))
			}
		}
		// readiness of parked partners per channel
		for _, c := range b.chans {
			w("(define-fun rdyr_%s_%d () Bool %s)", c, k, partnerReady(c, false, -1, k))
			w("(define-fun rdys_%s_%d () Bool %s)", c, k, partnerReady(c, true, -1, k))
		}
		for i := 0; i < I; i++ {
			ti := b.insts[i]
			bt := b.tmpls[ti]
			_ = ti
			for _, e := range bt.edges {
				fire := act(i, e.id)
				pre := fmt.Sprintf("pre_%d_%d_%d", i, e.id, k)
				base := and(fire, pre)
				ev := e.ev
				sym := func() string { return b.termStr(ev.Sym, bt, i) }
				val := func() string { return b.termStr(ev.Val, bt, i) }
				role, isChan := roleOf(ev)
				switch {
				case isChan && role.isDeflt:
					// default: no case can proceed
					var none []string
					for _, c := range ev.Cases {
						if capOf(c.Obj) > 0 {
							if c.Send {
								none = append(none, not(or(fmt.Sprintf("(bvult cnt_%s_%d %s)", c.Obj, k, bv(8, capOf(c.Obj))), fmt.Sprintf("closed_%s_%d", c.Obj, k))))
							} else {
								none = append(none, not(or(fmt.Sprintf("(not (= cnt_%s_%d #x00))", c.Obj, k), fmt.Sprintf("closed_%s_%d", c.Obj, k))))
							}
						} else if c.Send {
							none = append(none, not(or(fmt.Sprintf("rdyr_%s_%d", c.Obj, k), fmt.Sprintf("closed_%s_%d", c.Obj, k))))
						} else {
							none = append(none, not(or(fmt.Sprintf("rdys_%s_%d", c.Obj, k), fmt.Sprintf("closed_%s_%d", c.Obj, k))))
						}
					}
					valid = append(valid, and(base, noPartner, and(none...), posts(fire, nil, postSrc{ev, bt, i})))
					enabled = append(enabled, and(pre, and(none...)))
					pcEff[i] = append(pcEff[i], effect{fire, bv(pcW, e.to)})
				case isChan && role.closed:
					cl := fmt.Sprintf("closed_%s_%d", role.ch, k)
					if capOf(role.ch) > 0 {
						cl = and(cl, fmt.Sprintf("(= cnt_%s_%d #x00)", role.ch, k))
					}
					valid = append(valid, and(base, noPartner, cl, posts(fire, nil, postSrc{ev, bt, i})))
					enabled = append(enabled, and(pre, cl))
					pcEff[i] = append(pcEff[i], effect{fire, bv(pcW, e.to)})
				case isChan && capOf(role.ch) > 0:
					// buffered channel: a counter plus a FIFO of cap slots for
					// the payload (slot 0 is the head)
					cnt := fmt.Sprintf("cnt_%s_%d", role.ch, k)
					if role.send {
						room := and(not(fmt.Sprintf("closed_%s_%d", role.ch, k)), fmt.Sprintf("(bvult %s %s)", cnt, bv(8, capOf(role.ch))))
						if ev.Val != nil {
							for j := 0; j < capOf(role.ch); j++ {
								key := fmt.Sprintf("%s/%d", role.ch, j)
								qEff[key] = append(qEff[key], effect{and(fire, room, fmt.Sprintf("(= %s %s)", cnt, bv(8, j))), val()})
							}
						}
						valid = append(valid, and(base, noPartner, room, posts(fire, nil, postSrc{ev, bt, i})))
						enabled = append(enabled, and(pre, or(room, fmt.Sprintf("closed_%s_%d", role.ch, k))))
						pan := and(base, noPartner, fmt.Sprintf("closed_%s_%d", role.ch, k))
						valid = append(valid, pan)
						badTerms = append(badTerms, flag("bad", "send on closed channel "+role.ch+" at "+ev.Pos, pan))
						cntEff[role.ch] = append(cntEff[role.ch], effect{and(fire, room), fmt.Sprintf("(bvadd %s #x01)", cnt)})
					} else {
						some := fmt.Sprintf("(not (= %s #x00))", cnt)
						got := "true"
						if ev.Sym != nil {
							got = fmt.Sprintf("(= %s q_%s_0_%d)", sym(), role.ch, k)
						}
						valid = append(valid, and(base, noPartner, some, got, posts(fire, nil, postSrc{ev, bt, i})))
						enabled = append(enabled, and(pre, some))
						cntEff[role.ch] = append(cntEff[role.ch], effect{fire, fmt.Sprintf("(bvsub %s #x01)", cnt)})
						for j := 0; j+1 < capOf(role.ch); j++ {
							key := fmt.Sprintf("%s/%d", role.ch, j)
							qEff[key] = append(qEff[key], effect{fire, fmt.Sprintf("q_%s_%d_%d", role.ch, j+1, k)})
						}
					}
					pcEff[i] = append(pcEff[i], effect{fire, bv(pcW, e.to)})
				case isChan && role.send:
					// (a) rendezvous with a receiver (this instance is the primary)
					var pairs, pairsEn []string
					for j := 0; j < I; j++ {
						if j == i {
							continue
						}
						bj := b.tmpls[b.insts[j]]
						for _, f := range bj.edges {
							rj, ok := roleOf(f.ev)
							if !ok || rj.isDeflt || rj.closed || rj.send || rj.ch != role.ch {
								continue
							}
							if role.nonblock && rj.nonblock {
								continue // two polling selects never meet
							}
							conds := []string{part(j, f.id), fmt.Sprintf("pre_%d_%d_%d", j, f.id, k)}
							if role.nonblock {
								conds = append(conds, fmt.Sprintf("arr_%d_%d", j, k))
							}
							if rj.nonblock {
								conds = append(conds, fmt.Sprintf("arr_%d_%d", i, k))
							}
							pairsEn = append(pairsEn, and(conds[1:]...))
							if ev.Val != nil && f.ev.Sym != nil {
								conds = append(conds, fmt.Sprintf("(= %s %s)", b.termStr(f.ev.Sym, bj, j), val()))
							}
							conds = append(conds, posts(and(fire, part(j, f.id)), nil, postSrc{ev, bt, i}, postSrc{f.ev, bj, j}))
							pairs = append(pairs, and(conds...))
							pcEff[j] = append(pcEff[j], effect{and(fire, part(j, f.id)), bv(pcW, f.to)})
						}
					}
					valid = append(valid, and(base, not(fmt.Sprintf("closed_%s_%d", role.ch, k)), or(pairs...)))
					enabled = append(enabled, and(pre, or(fmt.Sprintf("closed_%s_%d", role.ch, k), or(pairsEn...))))
					// (b) send on a closed channel: run-time panic
					pan := and(base, noPartner, fmt.Sprintf("closed_%s_%d", role.ch, k))
					valid = append(valid, pan)
					badTerms = append(badTerms, flag("bad", "send on closed channel "+role.ch+" at "+ev.Pos, pan))
					pcEff[i] = append(pcEff[i], effect{fire, bv(pcW, e.to)})
				case isChan:
					// receive edges fire only as partners of a send (handled above)
				default:
					switch ev.Kind {
					case "close":
						valid = append(valid, and(base, noPartner))
						enabled = append(enabled, pre)
						badTerms = append(badTerms, flag("bad", "close of closed channel "+ev.Obj+" at "+ev.Pos, and(base, fmt.Sprintf("closed_%s_%d", ev.Obj, k))))
						closedNext[ev.Obj] = append(closedNext[ev.Obj], fire)
					case "lock":
						valid = append(valid, and(base, noPartner, not(fmt.Sprintf("held_%s_%d", ev.Obj, k))))
						enabled = append(enabled, and(pre, not(fmt.Sprintf("held_%s_%d", ev.Obj, k))))
						heldSet[ev.Obj] = append(heldSet[ev.Obj], fire)
					case "unlock":
						valid = append(valid, and(base, noPartner))
						enabled = append(enabled, pre)
						badTerms = append(badTerms, flag("bad", "unlock of unlocked mutex "+ev.Obj+" at "+ev.Pos, and(base, not(fmt.Sprintf("held_%s_%d", ev.Obj, k)))))
						heldClr[ev.Obj] = append(heldClr[ev.Obj], fire)
					case "wgadd":
						valid = append(valid, and(base, noPartner))
						enabled = append(enabled, pre)
						nv := fmt.Sprintf("(bvadd wg_%s_%d %s)", ev.Obj, k, val())
						wgEff[ev.Obj] = append(wgEff[ev.Obj], effect{fire, nv})
						badTerms = append(badTerms, flag("bad", "negative WaitGroup counter "+ev.Obj+" at "+ev.Pos, and(base, fmt.Sprintf("(bvslt %s #x00)", nv))))
					case "wgwait":
						valid = append(valid, and(base, noPartner, fmt.Sprintf("(= wg_%s_%d #x00)", ev.Obj, k)))
						enabled = append(enabled, and(pre, fmt.Sprintf("(= wg_%s_%d #x00)", ev.Obj, k)))
					case "load":
						if ev.Sym == nil {
							valid = append(valid, and(base, noPartner)) // value not tracked (race query only)
						} else {
							valid = append(valid, and(base, noPartner, fmt.Sprintf("(= %s val_%s_%d)", sym(), ev.Obj, k)))
						}
						enabled = append(enabled, pre)
					case "store":
						valid = append(valid, and(base, noPartner))
						enabled = append(enabled, pre)
						if ev.Val != nil {
							cellEff[ev.Obj] = append(cellEff[ev.Obj], effect{fire, val()})
						}
					case "aadd":
						nv := fmt.Sprintf("(bvadd val_%s_%d %s)", ev.Obj, k, val())
						valid = append(valid, and(base, noPartner, fmt.Sprintf("(= %s %s)", sym(), nv)))
						enabled = append(enabled, pre)
						cellEff[ev.Obj] = append(cellEff[ev.Obj], effect{fire, nv})
					case "aswap":
						valid = append(valid, and(base, noPartner, fmt.Sprintf("(= %s val_%s_%d)", sym(), ev.Obj, k)))
						enabled = append(enabled, pre)
						cellEff[ev.Obj] = append(cellEff[ev.Obj], effect{fire, val()})
					case "acas":
						eq := fmt.Sprintf("(= val_%s_%d %s)", ev.Obj, k, b.termStr(ev.Old, bt, i))
						if ev.Choice == 1 {
							valid = append(valid, and(base, noPartner, eq))
							enabled = append(enabled, and(pre, eq))
							cellEff[ev.Obj] = append(cellEff[ev.Obj], effect{fire, val()})
						} else {
							valid = append(valid, and(base, noPartner, not(eq)))
							enabled = append(enabled, and(pre, not(eq)))
						}
					case "spawn":
						st := b.byName[ev.Template]
						var idle []string
						for j := st.first; j < st.first+st.instN; j++ {
							var lower []string
							for l := st.first; l < j; l++ {
								lower = append(lower, fmt.Sprintf("(not (= pc_%d_%d %s))", l, k, bv(pcW, 0)))
							}
							isIdle := and(append([]string{fmt.Sprintf("(= pc_%d_%d %s)", j, k, bv(pcW, 0))}, lower...)...)
							idle = append(idle, isIdle)
							pcEff[j] = append(pcEff[j], effect{and(fire, isIdle), bv(pcW, 1)})
						}
						valid = append(valid, and(base, noPartner))
						enabled = append(enabled, pre)
						cutTerms = append(cutTerms, flag("cut", "more goroutines of "+ev.Template+" than modelled instances (spawn at "+ev.Pos+")", and(base, not(or(idle...)))))
					case "exit", "fail", "panic", "cut":
						valid = append(valid, and(base, noPartner))
						enabled = append(enabled, pre)
					default:
						panic("bmc: unknown event kind " + ev.Kind)
					}
					if len(ev.Post) > 0 {
						start := map[string]string{}
						if ev.Kind == "aadd" {
							start[ev.Obj] = fmt.Sprintf("(bvadd val_%s_%d %s)", ev.Obj, k, val())
						} else if ev.Kind == "store" || ev.Kind == "aswap" {
							start[ev.Obj] = val()
						}
						if c := posts(fire, start, postSrc{ev, bt, i}); c != "true" {
							valid[len(valid)-1] = and(valid[len(valid)-1], c)
						}
					}
					pcEff[i] = append(pcEff[i], effect{fire, bv(pcW, e.to)})
				}
			}
		}
		if k == K {
			finalEnabled = enabled
			break
		}
		// transition relation
		stut := fmt.Sprintf("st_%d", k)
		w("(assert (or %s %s))", stut, or(valid...))
		chain := func(cur string, effs []effect) string {
			r := cur
			for n := len(effs) - 1; n >= 0; n-- {
				r = fmt.Sprintf("(ite %s %s %s)", effs[n].cond, effs[n].val, r)
			}
			return r
		}
		for i := 0; i < I; i++ {
			nx := chain(fmt.Sprintf("pc_%d_%d", i, k), pcEff[i])
			w("(assert (= pc_%d_%d (ite %s pc_%d_%d %s)))", i, k+1, stut, i, k, nx)
			// parking at a blocking operation takes no step of its own: at any
			// time after reaching the node the instance may count as waiting
			keep := fmt.Sprintf("(= pc_%d_%d pc_%d_%d)", i, k+1, i, k)
			w("(assert (= arr_%d_%d (ite %s (or arr_%d_%d af_%d_%d) af_%d_%d)))", i, k+1, keep, i, k, i, k, i, k)
		}
		for _, c := range b.chans {
			w("(assert (= closed_%s_%d (or closed_%s_%d %s)))", c, k+1, c, k, and(not(stut), or(closedNext[c]...)))
			if capOf(c) > 0 {
				w("(assert (= cnt_%s_%d (ite %s cnt_%s_%d %s)))", c, k+1, stut, c, k, chain(fmt.Sprintf("cnt_%s_%d", c, k), cntEff[c]))
				for j := 0; j < capOf(c); j++ {
					cur := fmt.Sprintf("q_%s_%d_%d", c, j, k)
					w("(assert (= q_%s_%d_%d (ite %s %s %s)))", c, j, k+1, stut, cur, chain(cur, qEff[fmt.Sprintf("%s/%d", c, j)]))
				}
			}
		}
		for _, m := range b.mutexes {
			w("(assert (= held_%s_%d (ite %s true (ite %s false held_%s_%d))))", m, k+1, and(not(stut), or(heldSet[m]...)), and(not(stut), or(heldClr[m]...)), m, k)
		}
		for _, g := range b.wgs {
			w("(assert (= wg_%s_%d (ite %s wg_%s_%d %s)))", g, k+1, stut, g, k, chain(fmt.Sprintf("wg_%s_%d", g, k), wgEff[g]))
		}
		for _, x := range b.cells {
			w("(assert (= val_%s_%d (ite %s val_%s_%d %s)))", x, k+1, stut, x, k, chain(fmt.Sprintf("val_%s_%d", x, k), cellEff[x]))
		}
		if k+1 < K {
			w("(assert (=> st_%d st_%d))", k, k+1)
		}
	}
	// canonical order of adjacent independent events. (Also sound for the race
	// query: the racy state is the end state of a prefix of the execution, and
	// every linearisation of that prefix, the canonical one included, reaches it.)
	b.emitPOR(&sb, K)
	// symmetry: instances of one template are interchangeable, so the one with
	// the smaller index makes its first move first
	for _, bt := range b.tmpls {
		for j := bt.first; j+1 < bt.first+bt.instN; j++ {
			for k := 0; k < K; k++ {
				w("(assert (=> (and (not st_%d) (= pc_%d_%d %s) (or (= ti_%d %s) (and (not (= pe_%d %s)) (= pi_%d %s)))) (not (= pc_%d_%d %s))))",
					k, j+1, k, bv(pcW, 1), k, bv(inW, j+1), k, bv(edW, 0), k, bv(inW, j+1), j, k, bv(pcW, 1))
			}
		}
	}
	// terminal-node predicates
	var failReach, cutReach, notDone []string
	for k := 0; k <= K; k++ {
		for i := 0; i < len(b.insts); i++ {
			bt := b.tmpls[b.insts[i]]
			for node, kind := range bt.term {
				at := fmt.Sprintf("(= pc_%d_%d %s)", i, k, bv(pcW, node))
				switch kind {
				case "fail", "panic":
					failReach = append(failReach, flag("bad", kind+": "+bt.msg[node], at))
				case "cut":
					cutReach = append(cutReach, flag("cut", "thread path / receive bound reached in "+bt.name, at))
				}
			}
		}
	}
	if query == "race" {
		// two different instances are each about to perform a plain (non-atomic)
		// access to the same declared shared variable, at least one of them a write
		type acc struct {
			inst, edge int
			store      bool
			cell, pos  string
		}
		var accs []acc
		for i := 0; i < len(b.insts); i++ {
			for _, e := range b.tmpls[b.insts[i]].edges {
				if (e.ev.Kind == "load" || e.ev.Kind == "store") && e.ev.Plain {
					accs = append(accs, acc{i, e.id, e.ev.Kind == "store", e.ev.Obj, e.ev.Pos})
				}
			}
		}
		var bads []string
		for k := 0; k < K; k++ {
			for x := 0; x < len(accs); x++ {
				for y := x + 1; y < len(accs); y++ {
					a, c := accs[x], accs[y]
					if a.inst == c.inst || a.cell != c.cell || !(a.store || c.store) {
						continue
					}
					bads = append(bads, flag("race", fmt.Sprintf("unsynchronised accesses to %s at %s and %s", a.cell, a.pos, c.pos),
						and(fmt.Sprintf("pre_%d_%d_%d", a.inst, a.edge, k), fmt.Sprintf("pre_%d_%d_%d", c.inst, c.edge, k))))
				}
			}
		}
		w("(assert %s)", or(bads...))
	}
	if strings.HasPrefix(query, "growth:") {
		// growth:<chan substring>:<busy ghost cell>:<max symbol>: a released hit is
		// pending (a thread blocks sending on the channel, or a value sits in its
		// buffer) while fewer than max are busy and no thread is at a receive
		f := strings.Split(query, ":")
		var ch string
		for _, c := range b.chans {
			if strings.Contains(c, f[1]) {
				ch = c
			}
		}
		var bads []string
		for k := 0; k <= K && ch != ""; k++ {
			var pending, idle []string
			for i := 0; i < len(b.insts); i++ {
				bt := b.tmpls[b.insts[i]]
				for _, e := range bt.edges {
					r, ok := roleOf(e.ev)
					if !ok || r.isDeflt || r.closed || r.ch != ch {
						continue
					}
					at := fmt.Sprintf("pre_%d_%d_%d", i, e.id, k)
					if k == K {
						// pre_* is defined per step of the unrolling only
						var gs []string
						for _, g := range e.guards {
							gs = append(gs, b.termStr(g, bt, i))
						}
						at = and(append([]string{fmt.Sprintf("(= pc_%d_%d %s)", i, k, bv(pcW, e.from))}, gs...)...)
					}
					if r.send && !r.nonblock {
						pending = appendUnique(pending, at)
					}
					if !r.send {
						idle = appendUnique(idle, at)
					}
				}
			}
			if capOf(ch) > 0 {
				pending = append(pending, fmt.Sprintf("(not (= cnt_%s_%d #x00))", ch, k))
			}
			bads = append(bads, flag("growth", fmt.Sprintf("a released hit waits at step %d although fewer than max-workers are busy and no worker is idle", k),
				and(or(pending...), fmt.Sprintf("(bvult val_cell_ghost_%s_%d %s)", f[2], k, f[3]), not(or(idle...)))))
		}
		w("(assert %s)", or(bads...))
		query = "growth"
	}
	label := ""
	if strings.HasPrefix(query, "bad:") {
		label = strings.TrimPrefix(query, "bad:")
		query = "bad"
		var sel []string
		if label == "primitive" {
			sel = badTerms
		} else if strings.HasPrefix(label, "prim:") {
			for _, f := range badTerms {
				if flagDescr[f] == strings.TrimPrefix(label, "prim:") {
					sel = append(sel, f)
				}
			}
		} else {
			for _, f := range failReach {
				if strings.HasSuffix(flagDescr[f], ": "+label) {
					sel = append(sel, f)
				}
			}
		}
		failReach, badTerms = sel, nil
	}
	switch query {
	case "bad":
		w("(assert %s)", or(append(failReach, badTerms...)...))
	case "cut":
		w("(assert %s)", or(append(cutReach, cutTerms...)...))
	case "deadlock":
		// some step where stutter starts although a thread has not finished:
		// since stutter is closed and every enabled move may be taken, we ask for
		// a state without enabled moves; encoded as: no valid move exists at the
		// first stuttering step k (checked by a copy of the step relation)
		for i := 0; i < len(b.insts); i++ {
			bt := b.tmpls[b.insts[i]]
			var done []string
			done = append(done, fmt.Sprintf("(= pc_%d_%d %s)", i, K, bv(pcW, 0)))
			for node, kind := range bt.term {
				if kind == "exit" {
					done = append(done, fmt.Sprintf("(= pc_%d_%d %s)", i, K, bv(pcW, node)))
				}
			}
			notDone = append(notDone, not(or(done...)))
			// an instance stuck only because a harness assumption excludes its
			// continuation is not a blocked goroutine: every unfinished instance
			// must have an out-edge whose thread-local guards hold
			var guardOK []string
			for _, e := range bt.edges {
				var gs []string
				for _, g := range e.guards {
					gs = append(gs, b.termStr(g, bt, i))
				}
				guardOK = append(guardOK, and(append([]string{fmt.Sprintf("(= pc_%d_%d %s)", i, K, bv(pcW, e.from))}, gs...)...))
			}
			w("(assert (or %s %s))", or(done...), or(guardOK...))
		}
		w("(assert %s)", or(notDone...))
		// the final state (any reachable state can be final, since stuttering is
		// always allowed) has no enabled move
		w("(assert (not %s))", or(finalEnabled...))
	}
	w("(check-sat)")
	var flagNames []string
	for n := range flagDescr {
		if strings.HasPrefix(n, query+"_") || (query == "bad" && strings.HasPrefix(n, "bad_")) || (query == "cut" && strings.HasPrefix(n, "cut_")) {
			flagNames = append(flagNames, n)
		}
	}
	sort.Strings(flagNames)
	if len(flagNames) > 0 && (query == "bad" || query == "cut" || query == "growth" || query == "race") {
		w("(get-value (%s))", strings.Join(flagNames, " "))
	}
	var names []string
	for k := 0; k < K; k++ {
		names = append(names, fmt.Sprintf("st_%d ti_%d te_%d pi_%d pe_%d", k, k, k, k, k))
	}
	w("(get-value (%s))", strings.Join(names, " "))
	var dn []string
	for n := range declared {
		dn = append(dn, n)
	}
	sort.Strings(dn)
	if len(dn) > 0 {
		w("(get-value (%s))", strings.Join(dn, " "))
	}
	return sb.String(), flagDescr
}

func appendUnique[T comparable](xs []T, x T) []T {
	for _, y := range xs {
		if y == x {
			return xs
		}
	}
	return append(xs, x)
}

// emitPOR restricts adjacent independent events to ascending instance order.
func (b *BMC) emitPOR(sb *strings.Builder, K int) {
	// object class per (template, edge): 0 = none (thread-local), 1 = everything, >=2 = object index
	objIdx := map[string]int{}
	n := 2
	for _, group := range [][]string{b.chans, b.mutexes, b.wgs, b.cells} {
		for _, o := range group {
			objIdx[o] = n
			n++
		}
	}
	for _, bt := range b.tmpls {
		objIdx["spawn:"+bt.name] = n
		n++
	}
	cls := func(e Event) int {
		switch e.Kind {
		case "exit", "fail", "panic", "cut":
			return 0
		case "spawn":
			// dependent only with other spawns of the same template
			if v, ok := objIdx["spawn:"+e.Template]; ok {
				return v
			}
			return 1
		case "select":
			if e.Choice < 0 {
				return 1 // the default outcome depends on who is parked where
			}
			return objIdx[e.Cases[e.Choice].Obj]
		}
		if e.Obj != "" {
			return objIdx[e.Obj]
		}
		return 0
	}
	I := len(b.insts)
	for k := 0; k < K; k++ {
		// oc_k: object class of the acting edge at step k
		fmt.Fprintf(sb, "(declare-const oc_%d (_ BitVec 8))\n", k)
		var cases []string
		for i := 0; i < I; i++ {
			bt := b.tmpls[b.insts[i]]
			for _, e := range bt.edges {
				cases = append(cases, fmt.Sprintf("(=> (and (= ti_%d %s) (= te_%d %s)) (= oc_%d %s))", k, bv(inW, i), k, bv(edW, e.id), k, bv(8, cls(e.ev))))
			}
		}
		fmt.Fprintf(sb, "(assert (and %s))\n", strings.Join(cases, " "))
	}
	for k := 0; k+1 < K; k++ {
		x, y := k, k+1
		disjoint := fmt.Sprintf("(and (not (= ti_%d ti_%d)) (or (= pe_%d %s) (not (= pi_%d ti_%d))) (or (= pe_%d %s) (not (= pi_%d ti_%d))) (or (= pe_%d %s) (= pe_%d %s) (not (= pi_%d pi_%d))))",
			x, y, x, bv(edW, 0), x, y, y, bv(edW, 0), y, x, x, bv(edW, 0), y, bv(edW, 0), x, y)
		indep := fmt.Sprintf("(and %s (not (= oc_%d #x01)) (not (= oc_%d #x01)) (or (= oc_%d #x00) (= oc_%d #x00) (not (= oc_%d oc_%d))))", disjoint, x, y, x, y, x, y)
		fmt.Fprintf(sb, "(assert (not (and (not st_%d) (not st_%d) %s (bvugt ti_%d ti_%d))))\n", x, y, indep, x, y)
	}
}

// Solve runs one query and, if sat, decodes the schedule.
func (b *BMC) Solve(parent context.Context, query string, K int, timeout time.Duration, solver string) (smt.Result, []string, time.Duration) {
	script, flags := b.Script(query, K)
	if p := os.Getenv("VERIF_BMCLOG"); p != "" {
		os.WriteFile(fmt.Sprintf("%s.%s.smt2", p, query), []byte(script), 0o644)
	}
	t0 := time.Now()
	ctx, cancel := context.WithTimeout(parent, timeout)
	defer cancel()
	cmd := exec.CommandContext(ctx, solver, "-in")
	cmd.Stdin = strings.NewReader(script)
	out, _ := cmd.CombinedOutput()
	d := time.Since(t0)
	txt := string(out)
	lines := strings.SplitN(strings.TrimSpace(txt), "\n", 2)
	first := strings.TrimSpace(lines[0])
	switch first {
	case "unsat":
		return smt.Unsat, nil, d
	case "sat":
		var trace []string
		if len(lines) > 1 {
			trace = b.decode(lines[1], K, flags)
		}
		return smt.Sat, trace, d
	}
	if os.Getenv("VERIF_DEBUG") != "" {
		fmt.Fprintf(os.Stderr, "bmc %s: solver said %.300s\n", query, txt)
	}
	return smt.Unknown, nil, d
}

func (b *BMC) decode(model string, K int, flagDescr map[string]string) []string {
	vals := map[string]string{}
	// entries look like (name value)
	toks := strings.FieldsFunc(model, func(r rune) bool { return r == '(' || r == ')' || r == '\n' })
	for _, t := range toks {
		f := strings.Fields(t)
		if len(f) == 2 {
			vals[f[0]] = f[1]
		}
	}
	num := func(s string) int {
		if strings.HasPrefix(s, "#x") {
			v, _ := strconv.ParseInt(s[2:], 16, 64)
			return int(v)
		}
		if strings.HasPrefix(s, "#b") {
			v, _ := strconv.ParseInt(s[2:], 2, 64)
			return int(v)
		}
		return -1
	}
	descr := func(i, e int) string {
		if i < 0 || i >= len(b.insts) {
			return "?"
		}
		bt := b.tmpls[b.insts[i]]
		name := bt.name
		if k := strings.LastIndex(name, "."); k >= 0 {
			name = name[k+1:]
		}
		if e < 1 || e > len(bt.edges) {
			return fmt.Sprintf("T%d[%s] ?", i, name)
		}
		ev := bt.edges[e-1].ev
		s := ev.Kind
		if ev.Obj != "" {
			s += " " + ev.Obj
		}
		if ev.Kind == "select" {
			if ev.Choice < 0 {
				s += " default"
			} else {
				s += fmt.Sprintf(" case %d on %s %s", ev.Choice, ev.Cases[ev.Choice].Obj, ev.Msg)
			}
		}
		if ev.Kind == "recv" && ev.Choice == 0 {
			s += " (closed)"
		}
		if ev.Msg != "" && ev.Kind != "select" {
			s += " " + ev.Msg
		}
		if ev.Template != "" {
			s += " " + ev.Template
		}
		return fmt.Sprintf("T%d[%s] %s @%s", i, name, s, ev.Pos)
	}
	var trace []string
	var fl []string
	for n, d := range flagDescr {
		if vals[n] == "true" {
			fl = append(fl, d)
		}
	}
	sort.Strings(fl)
	for n, d := range fl {
		if n == 0 || fl[n-1] != d {
			trace = append(trace, "** "+d)
		}
	}
	for k := 0; k < K; k++ {
		if vals[fmt.Sprintf("st_%d", k)] == "true" {
			break
		}
		ti, te := num(vals[fmt.Sprintf("ti_%d", k)]), num(vals[fmt.Sprintf("te_%d", k)])
		line := fmt.Sprintf("%2d: %s", k, descr(ti, te))
		if pe := num(vals[fmt.Sprintf("pe_%d", k)]); pe > 0 {
			line += "  <->  " + descr(num(vals[fmt.Sprintf("pi_%d", k)]), pe)
		}
		trace = append(trace, line)
	}
	return trace
}

// Dump prints the DAGs (debugging aid).
func (b *BMC) Dump() string {
	var sb strings.Builder
	for _, bt := range b.tmpls {
		fmt.Fprintf(&sb, "template %s: %d nodes\n", bt.name, bt.nodes)
		for _, e := range bt.edges {
			var gs []string
			for _, g := range e.guards {
				gs = append(gs, bt.termText(g))
			}
			extra := ""
			if e.ev.Sym != nil {
				extra += " sym=" + e.ev.Sym.Name
			}
			if e.ev.Val != nil {
				extra += " val=" + bt.termText(e.ev.Val)
			}
			fmt.Fprintf(&sb, "  e%d: %d -> %d  %s %s ch=%d %s%s  guards=%v\n", e.id, e.from, e.to, e.ev.Kind, e.ev.Obj, e.ev.Choice, e.ev.Msg, extra, gs)
		}
	}
	return sb.String()
}

// PrimitiveLabels lists the run-time misuse checks of the model (send on or
// close of a closed channel, unlock of an unlocked mutex, negative WaitGroup).
func (b *BMC) PrimitiveLabels() []string {
	set := map[string]bool{}
	for _, bt := range b.tmpls {
		for _, e := range bt.edges {
			ev := e.ev
			role, isChan := roleOf(ev)
			switch {
			case isChan && role.send && !role.isDeflt:
				set["send on closed channel "+role.ch+" at "+ev.Pos] = true
			case ev.Kind == "close":
				set["close of closed channel "+ev.Obj+" at "+ev.Pos] = true
			case ev.Kind == "unlock":
				set["unlock of unlocked mutex "+ev.Obj+" at "+ev.Pos] = true
			case ev.Kind == "wgadd":
				set["negative WaitGroup counter "+ev.Obj+" at "+ev.Pos] = true
			}
		}
	}
	var out []string
	for l := range set {
		out = append(out, l)
	}
	sort.Strings(out)
	return out
}

// Labels lists the assertion / panic messages that occur in the model.
func (b *BMC) Labels() []string {
	set := map[string]bool{}
	for _, bt := range b.tmpls {
		for node, kind := range bt.term {
			if kind == "fail" || kind == "panic" {
				set[bt.msg[node]] = true
			}
		}
	}
	var out []string
	for l := range set {
		out = append(out, l)
	}
	sort.Strings(out)
	return out
}

// Describe summarises the model for evidence.
func (b *BMC) Describe() string {
	var parts []string
	for _, bt := range b.tmpls {
		name := bt.name
		if k := strings.LastIndex(name, "."); k >= 0 {
			name = name[k+1:]
		}
		parts = append(parts, fmt.Sprintf("%s x%d (%d nodes from a tree of %d, %d edges, depth %d)", name, bt.instN, bt.nodes, bt.treeNodes, len(bt.edges), bt.depth))
	}
	return fmt.Sprintf("threads: %s; objects: %d channels, %d mutexes, %d waitgroups, %d cells", strings.Join(parts, ", "), len(b.chans), len(b.mutexes), len(b.wgs), len(b.cells))
}

// Size returns the number of tree nodes and edges summed over instances.
func (b *BMC) Size() (int, int) {
	n, e := 0, 0
	for _, bt := range b.tmpls {
		n += bt.nodes * bt.instN
		e += len(bt.edges) * bt.instN
	}
	return n, e
}
