package symgo

// Path exploration: depth-first search over a decision vector with
// re-execution, path condition kept in one incremental solver process.

import (
	"fmt"
	"os"
	"sort"
	"strings"
	"sync/atomic"
	"time"

	"verif/engine/smt"
)

type abortKind int

const (
	abortInfeasible   abortKind = iota // assumption failed / no feasible alternative: path silently ends
	abortUnsupported                   // engine cannot interpret something: inconclusive
	abortUnwind                        // unwinding bound exceeded: inconclusive
	abortBudget                        // instruction budget exceeded: inconclusive
	abortAfterFinding                  // a violation makes continuing meaningless
	abortDeadlock                      // sequential mode: blocking operation can never proceed
)

type abortPath struct {
	kind abortKind
	msg  string
}

func (a abortPath) String() string { return fmt.Sprintf("abort(%d): %s", a.kind, a.msg) }

// Finding is a counterexample candidate produced by a sat query.
type Finding struct {
	Harness string            `json:"harness"`
	Kind    string            `json:"kind"` // assert | panic
	Msg     string            `json:"msg"`
	Pos     string            `json:"pos,omitempty"`
	Model   map[string]string `json:"model"`
	Trail   []int             `json:"trail"`
	Params  map[string]int    `json:"params,omitempty"`
	Tier    string            `json:"tier,omitempty"`
}

type nondetVar struct {
	name string
	t    *smt.Term
	kind string
}

type Inconclusive struct {
	Kind string `json:"kind"`
	Msg  string `json:"msg"`
}

// Explorer holds the search state for one harness instance.
type Explorer struct {
	Ctx     *smt.Ctx
	S       *smt.Solver
	IntMode bool
	Unwind  int
	Budget  int64
	// Portfolio used for obligations the incremental solver cannot decide.
	Portfolio      []string
	OneShotTimeout time.Duration
	CrossCheck     bool // thorough tier: re-discharge every unsat obligation with a second solver

	prefix  []dec
	trail   []dec
	pending [][]dec // unexplored feasible alternatives per trail position
	pc      []*smt.Term

	nondets   []*nondetVar
	nameCount map[string]int
	siteCount map[siteKey]int
	steps     int64

	// results
	Paths          int
	PathsInfeas    int
	Obligations    int
	Discharged     int
	Trivial        int
	Findings       []*Finding
	Inconcl        []Inconclusive
	Reached        map[string]int
	Decisions      int
	UnknownBranch  int
	Samples        []string
	CrossDisagree  int
	Covered        map[string]bool // functions interpreted
	Stubbed        map[string]bool // functions replaced by stubs/models
	Observations   []map[string]string
	curObs         map[string]string
	Abandoned      bool   // exploration stopped because another instance reported a finding
	StopFlag       *int32 // Engine.Stop
	StopOnFinding  bool   // a finding of this harness decides the check (not a known-finding witness)
	Harness        string
	Params         map[string]int
	Tier           string
	MaxFindings    int
	NoMerge        bool
	TreeMode       bool
	muted          bool
	onAssume       func(t *smt.Term)
	Merges         int
	Workers        int
	BMCStates      int
	BMCTransitions int
	posHook        func() string
	spawn          func(prefix []dec)
	baseLen        int
	SplitDepth     int
	curLabel       string
	AssumeAfterBug bool
}

// dec is one recorded decision: the alternative taken and, for value
// decisions, the concrete value involved.
type dec struct {
	c int
	v uint64
}

type siteKey struct {
	fr  *frame
	blk int
}

func NewExplorer(kind string, intMode bool, st *smt.Stats, timeoutMs int) (*Explorer, error) {
	ctx := smt.NewCtx()
	s, err := smt.Start(kind, ctx, st, timeoutMs)
	if err != nil {
		return nil, err
	}
	if p := os.Getenv("VERIF_SMTLOG"); p != "" {
		f, _ := os.Create(p)
		s.Log = f
	}
	return &Explorer{Ctx: ctx, S: s, IntMode: intMode, Unwind: 32, Budget: 20_000_000,
		Portfolio: []string{"z3", "z3-new", "cvc5"}, OneShotTimeout: 60 * time.Second,
		Reached: map[string]int{}, Covered: map[string]bool{}, Stubbed: map[string]bool{},
		MaxFindings: 8}, nil
}

func (e *Explorer) Close() { e.S.Close() }

// beginRun resets per-run state.
func (e *Explorer) beginRun() {
	e.trail = e.trail[:0]
	e.pc = e.pc[:0]
	e.nondets = e.nondets[:0]
	e.nameCount = map[string]int{}
	e.siteCount = map[siteKey]int{}
	e.steps = 0
	e.curObs = nil
	e.S.BeginRun()
}

func (e *Explorer) endRun() { e.S.EndRun() }

// next prepares the next prefix; false when the search space is exhausted.
func (e *Explorer) next() bool {
	// hand unexplored alternatives near the root to other workers
	if e.spawn != nil {
		for k := e.baseLen; k < len(e.trail) && k < e.SplitDepth && k < len(e.pending); k++ {
			for _, alt := range e.pending[k] {
				e.spawn(append(append([]dec{}, e.trail[:k]...), alt))
			}
			e.pending[k] = nil
		}
	}
	for k := len(e.trail) - 1; k >= e.baseLen; k-- {
		if k < len(e.pending) && len(e.pending[k]) > 0 {
			alt := e.pending[k][0]
			e.pending[k] = e.pending[k][1:]
			e.prefix = append(append([]dec{}, e.trail[:k]...), alt)
			e.pending = e.pending[:k+1]
			return true
		}
	}
	return false
}

func (e *Explorer) assume(t *smt.Term) {
	if t.IsTrue() || e.muted {
		// muted: an ancestor thread is being replayed only to re-create the
		// objects a spawned thread starts from; its branch conditions must not
		// constrain the exploration of that thread
		return
	}
	e.pc = append(e.pc, t)
	e.S.Assert(t)
	if e.onAssume != nil {
		e.onAssume(t)
	}
}

// stopped aborts the current path once another harness instance has reported a
// finding (the check is decided; see Engine.Stop).
func (e *Explorer) stopped() {
	if e.StopFlag != nil && atomic.LoadInt32(e.StopFlag) != 0 {
		e.Abandoned = true
		panic(abortPath{abortAfterFinding, "abandoned"})
	}
}

func (e *Explorer) check(extra ...*smt.Term) smt.Result {
	e.stopped()
	t0 := time.Now()
	r, _ := e.S.Check(extra, nil)
	if d := time.Since(t0); d > 3*time.Second && os.Getenv("VERIF_PROGRESS") != "" {
		fmt.Fprintf(os.Stderr, "[%s] slow feasibility query %.1fs (%s) at %s\n", e.Harness, d.Seconds(), r, e.curPos())
	}
	return r
}

// implied reports whether the path condition implies t (unknown counts as no).
func (e *Explorer) implied(t *smt.Term) bool {
	if t.IsTrue() {
		return true
	}
	if t.IsFalse() {
		return false
	}
	return e.check(e.Ctx.Not(t)) == smt.Unsat
}

// Choose takes an n-way decision; conds[k] is the constraint of alternative k.
func (e *Explorer) Choose(conds []*smt.Term) int {
	k := len(e.trail)
	var choice int
	if k < len(e.prefix) {
		choice = e.prefix[k].c
		if choice >= len(conds) {
			panic(abortPath{abortUnsupported, "replay divergence (non-deterministic re-execution)"})
		}
	} else {
		var feas []int
		for idx, c := range conds {
			if c.IsFalse() {
				continue
			}
			if c.IsTrue() {
				feas = append(feas, idx)
				continue
			}
			switch e.check(c) {
			case smt.Sat:
				feas = append(feas, idx)
			case smt.Unknown:
				e.UnknownBranch++
				feas = append(feas, idx)
			}
		}
		if len(feas) == 0 {
			panic(abortPath{abortInfeasible, "no feasible alternative"})
		}
		choice = feas[0]
		for len(e.pending) <= k {
			e.pending = append(e.pending, nil)
		}
		e.pending[k] = nil
		for _, f := range feas[1:] {
			e.pending[k] = append(e.pending[k], dec{c: f})
		}
		e.Decisions++
	}
	e.trail = append(e.trail, dec{c: choice})
	e.assume(conds[choice])
	return choice
}

// Branch decides a symbolic condition.
func (e *Explorer) Branch(cond *smt.Term) bool {
	if cond.IsTrue() {
		return true
	}
	if cond.IsFalse() {
		return false
	}
	return e.Choose([]*smt.Term{cond, e.Ctx.Not(cond)}) == 0
}

// ChooseValue forks over the feasible values of an integer term, guided by
// solver models: each decision is "t == v" (taken) versus "t != v" (try the
// next value). The chosen values are recorded in the trail so re-execution is
// deterministic.
func (e *Explorer) ChooseValue(t *smt.Term, signed bool, what string) uint64 {
	c := e.Ctx
	constOf := func(v uint64) *smt.Term {
		if t.S.K == smt.KInt {
			if signed {
				return c.IntC(int64(v))
			}
			return c.IntU(v)
		}
		return c.BVC(t.S.W, v)
	}
	tries := 0
	for {
		tries++
		if tries > e.Unwind+1 {
			panic(abortPath{abortUnwind, fmt.Sprintf("more than %d feasible values for %s", e.Unwind, what)})
		}
		k := len(e.trail)
		if k < len(e.prefix) {
			d := e.prefix[k]
			e.trail = append(e.trail, d)
			if d.c == 0 {
				e.assume(c.Eq(t, constOf(d.v)))
				return d.v
			}
			e.assume(c.Not(c.Eq(t, constOf(d.v))))
			continue
		}
		r, m := e.S.Check(nil, []*smt.Term{t})
		if r == smt.Unsat {
			panic(abortPath{abortInfeasible, "no further value for " + what})
		}
		if r != smt.Sat || m == nil {
			panic(abortPath{abortUnsupported, "solver gave no model while concretising " + what})
		}
		mv, ok := m[t.Ref()]
		if !ok {
			panic(abortPath{abortUnsupported, "model lacks value while concretising " + what})
		}
		var v uint64
		if mv.Big != nil {
			if mv.Big.Sign() < 0 || !mv.Big.IsUint64() {
				if mv.Big.IsInt64() {
					v = uint64(mv.Big.Int64())
				} else {
					panic(abortPath{abortUnsupported, "value out of range while concretising " + what})
				}
			} else {
				v = mv.Big.Uint64()
			}
		} else {
			v = mv.U
		}
		eq := c.Eq(t, constOf(v))
		for len(e.pending) <= k {
			e.pending = append(e.pending, nil)
		}
		e.pending[k] = nil
		if e.check(c.Not(eq)) != smt.Unsat {
			e.pending[k] = []dec{{c: 1, v: v}}
		}
		e.Decisions++
		e.trail = append(e.trail, dec{c: 0, v: v})
		e.assume(eq)
		return v
	}
}

func (e *Explorer) inconclusiveNote(kind, msg string) { e.inconclusive(kind, msg) }

// site enforces the unwinding bound at a symbolic branch site.
func (e *Explorer) site(fr *frame, blk int) {
	k := siteKey{fr, blk}
	e.siteCount[k]++
	if e.siteCount[k] > e.Unwind {
		panic(abortPath{abortUnwind, fmt.Sprintf("unwinding bound %d exceeded in %s block %d", e.Unwind, fr.fn, blk)})
	}
}

func sanitize(s string) string {
	var sb strings.Builder
	for _, r := range s {
		if (r >= 'a' && r <= 'z') || (r >= 'A' && r <= 'Z') || (r >= '0' && r <= '9') || r == '_' {
			sb.WriteRune(r)
		} else {
			sb.WriteByte('_')
		}
	}
	return sb.String()
}

// fresh creates a nondeterministic input variable. The replay key is
// name#occurrence.
func (e *Explorer) fresh(name string, s smt.Sort, kind string) *smt.Term {
	n := e.nameCount[name]
	e.nameCount[name] = n + 1
	key := fmt.Sprintf("%s#%d", name, n)
	t := e.Ctx.Var(fmt.Sprintf("n_%s_%d", sanitize(name), n), s)
	e.nondets = append(e.nondets, &nondetVar{key, t, kind})
	return t
}

func (e *Explorer) modelVars() []*smt.Term {
	var vs []*smt.Term
	for _, n := range e.nondets {
		vs = append(vs, n.t)
	}
	return vs
}

func (e *Explorer) modelMap(m map[string]smt.Value) map[string]string {
	out := map[string]string{}
	for _, n := range e.nondets {
		if v, ok := m[n.t.Ref()]; ok {
			switch v.S.K {
			case smt.KFP:
				out[n.name] = fmt.Sprintf("f:%x", mathFloat64bits(v.F))
			default:
				out[n.name] = v.String()
			}
		}
	}
	return out
}

func (e *Explorer) addFinding(kind, msg, pos string, model map[string]smt.Value) {
	f := &Finding{Harness: e.Harness, Kind: kind, Msg: msg, Pos: pos, Model: e.modelMap(model),
		Trail: e.trailInts(), Params: e.Params, Tier: e.Tier}
	for _, g := range e.Findings {
		if g.Kind == kind && g.Msg == msg && g.Pos == pos {
			return // keep the first witness per site
		}
	}
	e.Findings = append(e.Findings, f)
	if e.StopOnFinding && e.StopFlag != nil && kind != "cover" {
		atomic.StoreInt32(e.StopFlag, 1)
	}
}

func (e *Explorer) trailInts() []int {
	var t []int
	for _, d := range e.trail {
		t = append(t, d.c)
	}
	return t
}

func (e *Explorer) inconclusive(kind, msg string) {
	for _, x := range e.Inconcl {
		if x.Kind == kind && x.Msg == msg {
			return
		}
	}
	e.Inconcl = append(e.Inconcl, Inconclusive{kind, msg})
}

// decide runs a final obligation query "pc ∧ neg" with escalation to the
// one-shot portfolio when the incremental solver gives up.
func (e *Explorer) decide(neg *smt.Term) (smt.Result, map[string]smt.Value) {
	e.stopped()
	t0 := time.Now()
	defer func() {
		if d := time.Since(t0); d > 3*time.Second && os.Getenv("VERIF_PROGRESS") != "" {
			fmt.Fprintf(os.Stderr, "[%s] slow obligation %.1fs: %s\n", e.Harness, d.Seconds(), e.curLabel)
		}
	}()
	r, m := e.S.Check([]*smt.Term{neg}, e.modelVars())
	if r == smt.Unknown || (r == smt.Sat && m == nil) {
		r2, m2, _ := e.S.OneShot(e.Portfolio, []*smt.Term{neg}, e.modelVars(), e.OneShotTimeout)
		if r2 != smt.Unknown {
			return r2, m2
		}
		return smt.Unknown, nil
	}
	if r == smt.Unsat && e.CrossCheck {
		var other []string
		for _, k := range e.Portfolio {
			if k != e.S.Kind {
				other = append(other, k)
				break
			}
		}
		if len(other) > 0 {
			r2, _, _ := e.S.OneShot(other, []*smt.Term{neg}, nil, e.OneShotTimeout)
			if r2 == smt.Sat {
				e.CrossDisagree++
				return smt.Unknown, nil
			}
		}
	}
	return r, m
}

// requireNot is an implicit run-time check: if bad is satisfiable the target
// program can panic here.
func (e *Explorer) requireNot(bad *smt.Term, msg string) {
	if bad.IsFalse() {
		return
	}
	if e.TreeMode {
		// symbols bound by other threads are unconstrained here: the check
		// becomes a branch whose failing side is a panic event
		if e.Branch(bad) {
			panic(targetPanic{msg})
		}
		return
	}
	e.Obligations++
	r, m := e.decide(bad)
	switch r {
	case smt.Unsat:
		e.Discharged++
		return
	case smt.Sat:
		e.addFinding("panic", msg, e.curPos(), m)
	default:
		e.inconclusive("solver-unknown", "runtime check: "+msg)
	}
	// continue on the non-panicking side if there is one
	nb := e.Ctx.Not(bad)
	if e.check(nb) == smt.Unsat {
		panic(abortPath{abortAfterFinding, msg})
	}
	e.assume(nb)
}

func (e *Explorer) curPos() string {
	if e.posHook != nil {
		return e.posHook()
	}
	return ""
}

// Assert is an explicit proof obligation from the harness.
func (e *Explorer) Assert(cond *smt.Term, msg string) {
	e.Reached[msg]++
	e.Obligations++
	e.curLabel = msg
	if cond.IsTrue() {
		e.Discharged++
		e.Trivial++
		return
	}
	neg := e.Ctx.Not(cond)
	if len(e.Samples) < 6 {
		e.Samples = append(e.Samples, fmt.Sprintf("%s: pc(%d conjuncts) ∧ ¬%s", msg, len(e.pc), clip(cond.String(), 400)))
	}
	r, m := e.decide(neg)
	switch r {
	case smt.Unsat:
		e.Discharged++
		return
	case smt.Sat:
		e.addFinding("assert", msg, "", m)
	default:
		e.inconclusive("solver-unknown", "assert: "+msg)
	}
	if e.check(cond) == smt.Unsat {
		panic(abortPath{abortAfterFinding, msg})
	}
	e.assume(cond)
}

func clip(s string, n int) string {
	if len(s) > n {
		return s[:n] + "…"
	}
	return s
}

// Assume restricts the path; an infeasible assumption ends the path.
func (e *Explorer) Assume(cond *smt.Term) {
	if cond.IsTrue() {
		return
	}
	if cond.IsFalse() {
		panic(abortPath{abortInfeasible, "assume(false)"})
	}
	e.assume(cond)
	if e.check() == smt.Unsat {
		panic(abortPath{abortInfeasible, "assumption infeasible"})
	}
}

// Summary helpers.

func (e *Explorer) SortedKeys(m map[string]bool) []string {
	var ks []string
	for k := range m {
		ks = append(ks, k)
	}
	sort.Strings(ks)
	return ks
}
