package symgo

// If-conversion (state merging) for simple diamonds: when a symbolic branch
// guards one or two straight-line arms without side effects other than
// stores, both arms are executed and their effects are merged with ite terms
// instead of forking the path. Purely an optimisation: whenever anything is
// not obviously mergeable the engine falls back to forking.

import (
	"go/token"
	"go/types"

	"golang.org/x/tools/go/ssa"
	"verif/engine/smt"
)

type mergeAbort struct{}

type condStore struct {
	addr *value
	t    types.Type
	val  value
	cond *smt.Term
}

func speculatable(in ssa.Instruction) bool {
	switch in := in.(type) {
	case *ssa.DebugRef, *ssa.ChangeType, *ssa.Field, *ssa.FieldAddr, *ssa.Extract, *ssa.MakeInterface, *ssa.Store, *ssa.ChangeInterface:
		return true
	case *ssa.BinOp:
		switch in.Op {
		case token.QUO, token.REM:
			return false
		case token.SHL, token.SHR:
			_, ok := in.Y.(*ssa.Const)
			return ok
		}
		return true
	case *ssa.UnOp:
		return in.Op != token.ARROW
	case *ssa.Convert:
		_, ok1 := in.Type().Underlying().(*types.Basic)
		_, ok2 := in.X.Type().Underlying().(*types.Basic)
		if !ok1 || !ok2 {
			return false
		}
		k1, _ := basicKind(in.Type())
		k2, _ := basicKind(in.X.Type())
		return k1 != types.String && k2 != types.String
	}
	return false
}

func simpleArm(b, from *ssa.BasicBlock) (*ssa.BasicBlock, bool) {
	if len(b.Preds) != 1 || b.Preds[0] != from || len(b.Instrs) == 0 || len(b.Instrs) > 24 {
		return nil, false
	}
	if _, ok := b.Instrs[len(b.Instrs)-1].(*ssa.Jump); !ok {
		return nil, false
	}
	for _, in := range b.Instrs[:len(b.Instrs)-1] {
		if !speculatable(in) {
			return nil, false
		}
	}
	return b.Succs[0], true
}

// mergeValues builds ite(c, a, b) structurally; ok=false if not mergeable.
func (i *interpreter) mergeValues(c *smt.Term, a, b value) (res value, ok bool) {
	defer func() {
		if recover() != nil {
			res, ok = nil, false
		}
	}()
	ka, oka := kindOf(a)
	kb, okb := kindOf(b)
	if oka && okb {
		if ka != kb || ka == types.Float32 {
			return nil, false
		}
		if !isSym(a) && !isSym(b) && a == b {
			return a, true
		}
		return i.mkSym(i.ex.Ctx.Ite(c, i.term(a), i.term(b)), ka), true
	}
	switch x := a.(type) {
	case structure:
		y, ok := b.(structure)
		if !ok || len(x) != len(y) {
			return nil, false
		}
		out := make(structure, len(x))
		for k := range x {
			m, ok := i.mergeValues(c, x[k], y[k])
			if !ok {
				return nil, false
			}
			out[k] = m
		}
		return out, true
	case array:
		y, ok := b.(array)
		if !ok || len(x) != len(y) {
			return nil, false
		}
		out := make(array, len(x))
		for k := range x {
			m, ok := i.mergeValues(c, x[k], y[k])
			if !ok {
				return nil, false
			}
			out[k] = m
		}
		return out, true
	case iface:
		y, ok := b.(iface)
		if !ok {
			return nil, false
		}
		if x.t == nil && y.t == nil {
			return a, true
		}
		if x.t == nil || y.t == nil || !types.Identical(x.t, y.t) {
			return nil, false
		}
		m, ok := i.mergeValues(c, x.v, y.v)
		if !ok {
			return nil, false
		}
		return iface{x.t, m}, true
	case []value:
		y, ok := b.([]value)
		if !ok || len(x) != len(y) || cap(x) != cap(y) {
			return nil, false
		}
		if len(x) == 0 && cap(x) == 0 {
			if (x == nil) == (y == nil) {
				return a, true
			}
			return nil, false
		}
		if cap(x) > 0 && &x[:1][0] == &y[:1][0] {
			return a, true
		}
		return nil, false
	case string:
		if y, ok := b.(string); ok && x == y {
			return a, true
		}
		return nil, false
	case *value:
		if y, ok := b.(*value); ok && x == y {
			return a, true
		}
		return nil, false
	case *omap:
		if y, ok := b.(*omap); ok && x == y {
			return a, true
		}
		return nil, false
	case *channel:
		if y, ok := b.(*channel); ok && x == y {
			return a, true
		}
		return nil, false
	}
	return nil, false
}

// tryMerge attempts if-conversion at a symbolic If. On success the frame is
// positioned at the join block with its phis already assigned.
func (fr *frame) tryMerge(c sym) bool {
	i := fr.i
	if i.ex.NoMerge {
		return false
	}
	B := fr.block
	T, E := B.Succs[0], B.Succs[1]
	tj, tok := simpleArm(T, B)
	ej, eok := simpleArm(E, B)
	type arm struct {
		blk  *ssa.BasicBlock
		cond *smt.Term
	}
	var arms []arm
	var J *ssa.BasicBlock
	var predT, predE *ssa.BasicBlock // predecessors of J under c / under ¬c
	nc := i.ex.Ctx.Not(c.t)
	switch {
	case tok && eok && tj == ej:
		J, arms, predT, predE = tj, []arm{{T, c.t}, {E, nc}}, T, E
	case tok && tj == E:
		J, arms, predT, predE = E, []arm{{T, c.t}}, T, B
	case eok && ej == T:
		J, arms, predT, predE = T, []arm{{E, nc}}, B, E
	default:
		return false
	}
	// J's phis must be resolvable from the two predecessors unambiguously
	idxT, idxE := -1, -1
	for k, p := range J.Preds {
		if p == predT {
			if idxT >= 0 {
				return false
			}
			idxT = k
		}
		if p == predE {
			if idxE >= 0 {
				return false
			}
			idxE = k
		}
	}
	if idxT < 0 || idxE < 0 {
		return false
	}

	var added []ssa.Value
	var log []condStore
	ok := func() (ok bool) {
		defer func() {
			if p := recover(); p != nil {
				if a, isAbort := p.(abortPath); isAbort && a.kind != abortUnsupported {
					panic(p)
				}
				ok = false
			}
		}()
		for _, a := range arms {
			stored := false
			for _, in := range a.blk.Instrs[:len(a.blk.Instrs)-1] {
				switch in := in.(type) {
				case *ssa.Store:
					addr, isPtr := fr.get(in.Addr).(*value)
					if !isPtr || addr == nil {
						return false
					}
					log = append(log, condStore{addr, mustDeref(in.Addr.Type()), fr.get(in.Val), a.cond})
					stored = true
					continue
				case *ssa.UnOp:
					if in.Op == token.MUL {
						p, isPtr := fr.get(in.X).(*value)
						if !isPtr || p == nil || stored {
							return false
						}
					}
				case *ssa.FieldAddr:
					p, isPtr := fr.get(in.X).(*value)
					if !isPtr || p == nil {
						return false
					}
				}
				if v, isVal := in.(ssa.Value); isVal {
					added = append(added, v)
				}
				visitInstr(fr, in)
			}
		}
		return true
	}()
	rollback := func() {
		for _, v := range added {
			delete(fr.env, v)
		}
	}
	if !ok {
		rollback()
		return false
	}
	// merged phi values
	var phis []*ssa.Phi
	var phiVals []value
	for _, in := range J.Instrs {
		phi, isPhi := in.(*ssa.Phi)
		if !isPhi {
			break
		}
		vt, ve := fr.get(phi.Edges[idxT]), fr.get(phi.Edges[idxE])
		m, ok := i.mergeValues(c.t, vt, ve)
		if !ok {
			rollback()
			return false
		}
		phis = append(phis, phi)
		phiVals = append(phiVals, m)
	}
	// merged stores
	type finalStore struct {
		addr *value
		t    types.Type
		val  value
	}
	var finals []finalStore
	for _, s := range log {
		var old value
		found := false
		for k := len(finals) - 1; k >= 0; k-- {
			if finals[k].addr == s.addr {
				old, found = finals[k].val, true
				break
			}
		}
		if !found {
			old = load(s.t, s.addr)
		}
		m, ok := i.mergeValues(s.cond, s.val, old)
		if !ok {
			rollback()
			return false
		}
		finals = append(finals, finalStore{s.addr, s.t, m})
	}
	for _, s := range finals {
		store(s.t, s.addr, s.val)
	}
	for k, phi := range phis {
		fr.env[phi] = phiVals[k]
	}
	i.ex.Merges++
	fr.prevBlock, fr.block = predT, J
	fr.skipPhis = true
	return true
}
