package symgo

// Harness intrinsics: body-less functions named verif_* declared in the
// harness package.

import (
	"fmt"
	"go/types"
	"os"

	"golang.org/x/tools/go/ssa"
	"verif/engine/smt"
)

var intrinsics map[string]func(fr *frame, args []value) value

func argString(v value) string {
	s, ok := v.(string)
	if !ok {
		unsupported("intrinsic name argument must be a constant string")
	}
	return s
}

func (i *interpreter) nondetInt(name string, k types.BasicKind) value {
	e := i.ex
	t := e.fresh(name, i.sortOf(k), "int")
	if e.IntMode {
		e.assume(i.inRange(t, k))
	}
	return sym{t, k}
}

func (i *interpreter) boolTerm(v value) *smt.Term {
	switch v := v.(type) {
	case bool:
		return i.ex.Ctx.BoolC(v)
	case sym:
		return v.t
	}
	panic(fmt.Sprintf("boolTerm of %T", v))
}

func (i *interpreter) mi(v value) *smt.Term {
	if !i.ex.IntMode {
		unsupported("verif_mi_* requires //verif:mode=int")
	}
	switch v := v.(type) {
	case mathint:
		return v.t
	}
	return i.term(v)
}

func init() {
	intrinsics = map[string]func(fr *frame, args []value) value{
		"verif_nondet_bool": func(fr *frame, a []value) value {
			return sym{fr.i.ex.fresh(argString(a[0]), smt.Bool, "bool"), types.Bool}
		},
		"verif_nondet_i64": func(fr *frame, a []value) value { return fr.i.nondetInt(argString(a[0]), types.Int64) },
		"verif_nondet_u64": func(fr *frame, a []value) value { return fr.i.nondetInt(argString(a[0]), types.Uint64) },
		"verif_nondet_int": func(fr *frame, a []value) value { return fr.i.nondetInt(argString(a[0]), types.Int) },
		"verif_nondet_u16": func(fr *frame, a []value) value { return fr.i.nondetInt(argString(a[0]), types.Uint16) },
		"verif_nondet_u8":  func(fr *frame, a []value) value { return fr.i.nondetInt(argString(a[0]), types.Uint8) },
		"verif_nondet_f64": func(fr *frame, a []value) value {
			return sym{fr.i.ex.fresh(argString(a[0]), smt.FP64, "f64"), types.Float64}
		},
		"verif_nondet_bytes": func(fr *frame, a []value) value {
			n := int(asInt64(a[1]))
			out := make([]value, n)
			for k := range out {
				out[k] = fr.i.nondetInt(fmt.Sprintf("%s[%d]", argString(a[0]), k), types.Uint8)
			}
			return out
		},
		"verif_nondet_string": func(fr *frame, a []value) value {
			n := int(asInt64(a[1]))
			out := make([]value, n)
			for k := range out {
				out[k] = fr.i.nondetInt(fmt.Sprintf("%s[%d]", argString(a[0]), k), types.Uint8)
			}
			return mkStr(out)
		},
		"verif_nondet_time": func(fr *frame, a []value) value {
			i := fr.i
			v := i.nondetInt(argString(a[0]), types.Int64).(sym)
			c := i.ex.Ctx
			const hi = int64(1) << 62 // 2116-02-20: instant + duration (< 2^61) cannot overflow int64 nanoseconds
			if i.ex.IntMode {
				i.ex.assume(c.And(c.IntCmp("<=", c.IntC(0), v.t), c.IntCmp("<=", v.t, c.IntC(hi))))
			} else {
				i.ex.assume(c.And(c.BVCmp("bvsle", c.BVC(64, 0), v.t), c.BVCmp("bvsle", v.t, c.BVC(64, uint64(hi)))))
			}
			return absTime(v)
		},
		"verif_choose": func(fr *frame, a []value) value {
			i := fr.i
			n := asInt64(a[1])
			if n <= 0 {
				panic(abortPath{abortInfeasible, "verif_choose(0)"})
			}
			if n == 1 {
				// still consume a replay key so native replays stay aligned
				i.ex.fresh(argString(a[0]), i.sortOf(types.Int), "choose")
				return int(0)
			}
			v := i.nondetInt(argString(a[0]), types.Int).(sym)
			c := i.ex.Ctx
			if i.ex.IntMode {
				i.ex.assume(c.And(c.IntCmp("<=", c.IntC(0), v.t), c.IntCmp("<", v.t, c.IntC(n))))
			} else {
				i.ex.assume(c.BVCmp("bvult", v.t, c.BVC(64, uint64(n))))
			}
			return i.concretize(v, 0, n, "verif_choose")
		},
		"verif_assume": func(fr *frame, a []value) value {
			fr.i.ex.Assume(fr.i.boolTerm(a[0]))
			return nil
		},
		"verif_assert": func(fr *frame, a []value) value {
			i := fr.i
			if i.tree != nil {
				// concurrent harness: the assertion becomes an event; whether it can
				// fail is decided by the BMC over all schedules
				i.ex.Reached[argString(a[1])]++
				cond := i.boolTerm(a[0])
				if cond.IsTrue() {
					return nil
				}
				if !cond.IsFalse() && i.ex.Branch(cond) {
					return nil
				}
				i.tree.emit(Event{Kind: "fail", Msg: argString(a[1]), Pos: i.tree.pos(fr)})
				panic(abortPath{abortAfterFinding, argString(a[1])})
			}
			i.ex.Assert(i.boolTerm(a[0]), argString(a[1]))
			return nil
		},
		"verif_chan_codec": func(fr *frame, a []value) value {
			if fr.i.tree == nil {
				return nil
			}
			ch, ok := a[0].(iface).v.(*channel)
			if !ok {
				unsupported("verif_chan_codec: not a channel")
			}
			fr.i.tree.codecs[ch] = chanCodec{enc: a[1].(iface).v, dec: a[2].(iface).v}
			return nil
		},
		"verif_chan_name": func(fr *frame, a []value) value {
			if ch, ok := a[0].(iface).v.(*channel); ok && ch != nil {
				ch.label = argString(a[1])
			}
			return nil
		},
		"verif_shared": func(fr *frame, a []value) value {
			// declares *p as memory shared between goroutines: plain loads and
			// stores of it become visible (and race-checked) events
			if fr.i.tree == nil {
				return nil
			}
			p, ok := a[0].(iface).v.(*value)
			if !ok || p == nil {
				unsupported("verif_shared: not a pointer to a variable")
			}
			name := fr.i.tree.cellName(p, argString(a[1]))
			fr.i.tree.shared[p] = name
			return nil
		},
		"verif_ghost_add": func(fr *frame, a []value) value {
			i := fr.i
			name := argString(a[0])
			if i.tree == nil {
				// sequential harness: plain counter
				if i.ghost == nil {
					i.ghost = map[string]value{}
				}
				cur, _ := i.ghost[name].(int64)
				cur += asInt64(a[1])
				i.ghost[name] = cur
				return cur
			}
			cell, ok := i.tree.ghost[name]
			if !ok {
				var v value = int64(0)
				cell = &v
				i.tree.ghost[name] = cell
				i.tree.shared[cell] = "cell_ghost_" + sanitize(name)
				i.tree.objs["cell_ghost_"+sanitize(name)] = &ObjInfo{Name: "cell_ghost_" + sanitize(name), Kind: "cell", Width: 64}
			}
			return i.tree.cellOp(fr, "add", cell, []value{a[1]}, false, "")
		},
		"verif_reach": func(fr *frame, a []value) value {
			// reaching this point on a path without a run-time panic is itself an
			// obligation of "never panics" harnesses
			fr.i.ex.Reached["reach:"+argString(a[0])]++
			fr.i.ex.Obligations++
			fr.i.ex.Discharged++
			return nil
		},
		"verif_cover": func(fr *frame, a []value) value {
			fr.i.ex.Reached["cover:"+argString(a[0])]++
			return nil
		},
		"verif_expect_cover": func(fr *frame, a []value) value {
			fr.i.ex.Reached["expect:"+argString(a[0])]++
			return nil
		},
		"verif_and": func(fr *frame, a []value) value { return fr.i.and(a[0], a[1]) },
		"verif_or": func(fr *frame, a []value) value {
			return fr.i.not(fr.i.and(fr.i.not(a[0]), fr.i.not(a[1])))
		},
		"verif_implies": func(fr *frame, a []value) value {
			return fr.i.not(fr.i.and(a[0], fr.i.not(a[1])))
		},
		"verif_ite_i64": func(fr *frame, a []value) value { return fr.i.ite(a[0], a[1], a[2]) },
		"verif_ite_u64": func(fr *frame, a []value) value { return fr.i.ite(a[0], a[1], a[2]) },
		"verif_ite_f64": func(fr *frame, a []value) value { return fr.i.ite(a[0], a[1], a[2]) },
		"verif_same_f64": func(fr *frame, a []value) value {
			// identical as IEEE values (NaN equals NaN): SMT "=" on the FP sort
			i := fr.i
			x, y := i.term(a[0]), i.term(a[1])
			if x == y {
				return true
			}
			c := i.ex.Ctx
			return i.mkSym(c.Or(c.FPCmp("fp.eq", x, y), c.And(c.FPIsNaN(x), c.FPIsNaN(y))), types.Bool)
		},
		"verif_uf_f64": func(fr *frame, a []value) value {
			i := fr.i
			if !isSym(a[1]) {
				if argString(a[0]) == "seconds" {
					d := a[1].(int64)
					return float64(d/1e9) + float64(d%1e9)/1e9
				}
				unsupported("verif_uf_f64(%s) of a concrete value", argString(a[0]))
			}
			return i.mkSym(i.ex.Ctx.App("uf_"+sanitize(argString(a[0])), smt.FP64, i.term(a[1])), types.Float64)
		},
		"verif_thorough": func(fr *frame, a []value) value { return fr.i.ex.Tier == "thorough" },
		// verif_closure_set_int(fn, name, v): sets the integer variable `name`
		// captured by the closure fn to v (converted to the variable's own
		// width), so that one step can be checked from an arbitrary state of a
		// counter no caller can reach; false if fn captures no such variable.
		"verif_closure_set_int": func(fr *frame, a []value) value {
			fv := a[0]
			if it, ok := fv.(iface); ok {
				fv = it.v
			}
			cl, ok := fv.(*closure)
			if !ok {
				return false
			}
			name := argString(a[1])
			for k, v := range cl.Fn.FreeVars {
				if v.Name() != name || k >= len(cl.Env) {
					continue
				}
				cell, ok := cl.Env[k].(*value)
				if !ok || cell == nil {
					return false
				}
				kind, isBasic := kindOf(*cell)
				if !isBasic {
					return false
				}
				if _, _, isInt := kindInfo(kind); !isInt {
					return false
				}
				if sv, isSym := a[2].(sym); isSym {
					*cell = fr.i.symConv(kind, sv)
				} else {
					*cell = concreteOfKind(kind, uint64(asInt64(a[2])))
				}
				return true
			}
			return false
		},
		// verif_alloc_limit(n): from now on the make() calls of this path may
		// allocate n slice elements in total; exceeding it is a violation
		"verif_alloc_limit": func(fr *frame, a []value) value {
			fr.i.allocLimit, fr.i.allocUsed = asInt64(a[0]), 0
			return nil
		},
		// verif_fill(p, seed): p points to a value whose every field (found
		// through go/types) is set to a non-zero value that differs per field
		// and per seed; fields of types the helper cannot build stay zero.
		"verif_fill": func(fr *frame, a []value) value {
			it, ok := a[0].(iface)
			pt, okp := it.t.(*types.Pointer)
			cell, okc := it.v.(*value)
			if !ok || !okp || !okc || cell == nil {
				unsupported("verif_fill: not a pointer to a variable")
			}
			idx := 0
			if v, ok := fillValue(fr.i, pt.Elem(), int(asInt64(a[1])), "", &idx); ok {
				store(pt.Elem(), cell, v)
			}
			return nil
		},
		// verif_deep_equal(a, b): structural equality of two values of the same
		// dynamic type (nil and empty slices/maps alike, times by instant).
		"verif_deep_equal": func(fr *frame, a []value) value {
			x, y := a[0].(iface), a[1].(iface)
			if x.t == nil || y.t == nil || !types.Identical(x.t, y.t) {
				return false
			}
			return deepEqual(fr.i, x.t, x.v, y.v)
		},
		// verif_time_bound is the largest magnitude a model's free time values
		// may take: in the concurrent engine a symbol the BMC defines as 2^14
		// when values are narrowed to 16 bits and as 2^40 when they are not
		// (any constant of the code under test that does not fit 16 bits turns
		// narrowing off); 2^40 in sequential harnesses.
		"verif_time_bound": func(fr *frame, a []value) value {
			if fr.i.tree == nil {
				return int64(1) << 40
			}
			return fr.i.mkSym(fr.i.ex.Ctx.Var("verif_timebound", smt.BV(64)), types.Int64)
		},
		"verif_param": func(fr *frame, a []value) value {
			v, ok := fr.i.ex.Params[argString(a[0])]
			if !ok {
				unsupported("verif_param(%q) not set", argString(a[0]))
			}
			return v
		},
		"verif_finding_open": func(fr *frame, a []value) value {
			return fr.i.knownOpen[argString(a[0])]
		},
		"verif_stub": func(fr *frame, a []value) value {
			it := a[1].(iface)
			fr.i.stubs[argString(a[0])] = it.v
			return nil
		},
		"verif_unstub": func(fr *frame, a []value) value {
			delete(fr.i.stubs, argString(a[0]))
			return nil
		},
		"verif_is_symbolic_run": func(fr *frame, a []value) value { return true },
		"verif_observe": func(fr *frame, a []value) value {
			if os.Getenv("VERIF_DEBUG") != "" {
				v := a[1]
				if it, ok := v.(iface); ok {
					v = it.v
				}
				fmt.Fprintf(os.Stderr, "OBSERVE %s = %q\n", argString(a[0]), fmt.Sprint(nativeArg(fr, v)))
			}
			return nil
		},
		// mathematical integers for reference computations
		"verif_mi_i": func(fr *frame, a []value) value { return mathint{fr.i.mi(a[0])} },
		"verif_mi_u": func(fr *frame, a []value) value { return mathint{fr.i.mi(a[0])} },
		"verif_mi_add": func(fr *frame, a []value) value {
			return mathint{fr.i.ex.Ctx.IntN("+", fr.i.mi(a[0]), fr.i.mi(a[1]))}
		},
		"verif_mi_sub": func(fr *frame, a []value) value {
			return mathint{fr.i.ex.Ctx.IntN("-", fr.i.mi(a[0]), fr.i.mi(a[1]))}
		},
		"verif_mi_mul": func(fr *frame, a []value) value {
			return mathint{fr.i.ex.Ctx.IntN("*", fr.i.mi(a[0]), fr.i.mi(a[1]))}
		},
		"verif_mi_div": func(fr *frame, a []value) value {
			// floor division by a positive divisor (caller guarantees divisor > 0)
			return mathint{fr.i.ex.Ctx.IntN("div", fr.i.mi(a[0]), fr.i.mi(a[1]))}
		},
		"verif_mi_le": func(fr *frame, a []value) value {
			return fr.i.mkSym(fr.i.ex.Ctx.IntCmp("<=", fr.i.mi(a[0]), fr.i.mi(a[1])), types.Bool)
		},
		"verif_mi_lt": func(fr *frame, a []value) value {
			return fr.i.mkSym(fr.i.ex.Ctx.IntCmp("<", fr.i.mi(a[0]), fr.i.mi(a[1])), types.Bool)
		},
		"verif_mi_eq": func(fr *frame, a []value) value {
			return fr.i.mkSym(fr.i.ex.Ctx.Eq(fr.i.mi(a[0]), fr.i.mi(a[1])), types.Bool)
		},
	}
}

var _ = ssa.NewProgram
