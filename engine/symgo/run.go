package symgo

// Engine: loads the repository with harness overlays and runs harness
// functions symbolically.

import (
	"fmt"
	"go/token"
	"go/types"
	"os"
	"runtime/debug"
	"strings"
	"sync"
	"sync/atomic"
	"time"

	"golang.org/x/tools/go/packages"
	"golang.org/x/tools/go/ssa"
	"golang.org/x/tools/go/ssa/ssautil"
	"verif/engine/smt"
)

type Engine struct {
	Prog      *ssa.Program
	Pkgs      []*packages.Package
	SSAPkgs   map[string]*ssa.Package
	Sizes     types.Sizes
	KnownOpen map[string]bool
	Stats     *smt.Stats
	Tokens    chan struct{} // worker slots shared by all harness instances
	// Stop is set once some harness instance has reported a finding: a
	// violation decides the check, the other instances stop exploring
	Stop int32
}

// Load type-checks the listed packages of the repository together with the
// overlay files (harnesses) and creates (but does not yet build) SSA.
func Load(repo string, patterns []string, overlay map[string][]byte) (*Engine, error) {
	cfg := &packages.Config{
		Mode:    packages.LoadAllSyntax | packages.NeedModule,
		Dir:     repo,
		Overlay: overlay,
		Env:     append(os.Environ(), "GOFLAGS=-mod=readonly", "GOPROXY=off", "GOSUMDB=off", "GOTOOLCHAIN=local", "CGO_ENABLED=0"),
	}
	pkgs, err := packages.Load(cfg, patterns...)
	if err != nil {
		return nil, err
	}
	var errs []string
	packages.Visit(pkgs, nil, func(p *packages.Package) {
		for _, e := range p.Errors {
			errs = append(errs, e.Error())
		}
	})
	if len(errs) > 0 {
		return nil, fmt.Errorf("load errors:\n%s", strings.Join(errs, "\n"))
	}
	prog, spkgs := ssautil.AllPackages(pkgs, ssa.InstantiateGenerics|ssa.SanityCheckFunctions*0)
	e := &Engine{Prog: prog, Pkgs: pkgs, SSAPkgs: map[string]*ssa.Package{}, Sizes: &types.StdSizes{WordSize: 8, MaxAlign: 8},
		KnownOpen: map[string]bool{}, Stats: smt.NewStats(), Tokens: make(chan struct{}, 14)}
	for k, p := range spkgs {
		if p != nil {
			e.SSAPkgs[pkgs[k].PkgPath] = p
		}
	}
	// Build every package up front (in parallel): harness instances run
	// concurrently and must never observe a half-built function body.
	tb := time.Now()
	prog.Build()
	if os.Getenv("VERIF_PROGRESS") != "" {
		fmt.Fprintf(os.Stderr, "ssa build of %d packages: %.1fs\n", len(prog.AllPackages()), time.Since(tb).Seconds())
	}
	return e, nil
}

type HarnessCfg struct {
	Pkg           string // package path
	Func          string
	IntMode       bool
	Solver        string
	Unwind        int
	TimeoutMs     int
	Params        map[string]int
	Tier          string
	MaxPaths      int
	Deadline      time.Duration
	Label         string
	Discover      bool            // gobmc pass 1: record which pre-existing memory goroutines write
	AutoShared    map[string]bool // gobmc pass 2: memory slots to treat as shared
	MaxRecv       int             // gobmc: bound on values received from one channel on one thread path
	MaxEvents     int             // gobmc: bound on the number of events of one thread path
	StopOnFinding bool            // a finding of this harness decides the check: everything else stops
	Split         int             // decisions near the root whose alternatives are explored by separate workers (-1: none)
}

func (eng *Engine) newInterp(ex *Explorer, pkg *ssa.Package) *interpreter {
	i := &interpreter{
		prog:      eng.Prog,
		globals:   make(map[*ssa.Global]*value),
		sizes:     eng.Sizes,
		ex:        ex,
		stubs:     map[string]value{},
		initState: map[*ssa.Package]int{},
		harnessPk: pkg,
		knownOpen: eng.KnownOpen,
	}
	i.conc = &seqConc{i}
	if rt := eng.Prog.ImportedPackage("runtime"); rt != nil {
		i.runtimeErrorString = rt.Type("errorString").Object().Type()
	}
	return i
}

// global returns the cell of a global, allocating it on first use.
func (i *interpreter) global(g *ssa.Global) *value {
	if c, ok := i.globals[g]; ok {
		return c
	}
	cell := zero(mustDeref(g.Type()))
	i.globals[g] = &cell
	return &cell
}

// Run explores all paths of one harness function. Sub-trees rooted at the
// first SplitDepth decisions are explored by separate workers (each with its
// own solver process); the returned Explorer carries the merged results.
func (eng *Engine) Run(cfg HarnessCfg) (*Explorer, error) {
	pkg := eng.SSAPkgs[cfg.Pkg]
	if pkg == nil {
		return nil, fmt.Errorf("package %s not loaded", cfg.Pkg)
	}
	fn := pkg.Func(cfg.Func)
	if fn == nil {
		return nil, fmt.Errorf("harness %s.%s not found", cfg.Pkg, cfg.Func)
	}
	if cfg.Solver == "" {
		cfg.Solver = "z3"
	}
	if cfg.TimeoutMs == 0 {
		cfg.TimeoutMs = 10000
	}
	if cfg.MaxPaths == 0 {
		cfg.MaxPaths = 400000
	}
	if cfg.Deadline == 0 {
		cfg.Deadline = 20 * time.Minute
	}
	if cfg.Split == 0 {
		cfg.Split = 6
	}
	if cfg.Label == "" {
		cfg.Label = cfg.Func
	}
	t0 := time.Now()
	var (
		mu       sync.Mutex
		wg       sync.WaitGroup
		all      []*Explorer
		firstErr error
		paths    int64
	)
	var start func(prefix []dec)
	start = func(prefix []dec) {
		wg.Add(1)
		go func() {
			defer wg.Done()
			eng.Tokens <- struct{}{}
			defer func() { <-eng.Tokens }()
			ex, err := NewExplorer(cfg.Solver, cfg.IntMode, eng.Stats, cfg.TimeoutMs)
			if ex != nil {
				ex.StopFlag, ex.StopOnFinding = &eng.Stop, cfg.StopOnFinding
			}
			if err != nil {
				mu.Lock()
				firstErr = err
				mu.Unlock()
				return
			}
			defer ex.Close()
			ex.Harness, ex.Params, ex.Tier = cfg.Label, cfg.Params, cfg.Tier
			ex.CrossCheck = cfg.Tier == "thorough"
			if cfg.Unwind > 0 {
				ex.Unwind = cfg.Unwind
			}
			ex.prefix, ex.baseLen = prefix, len(prefix)
			ex.SplitDepth = cfg.Split
			if cfg.Split > 0 {
				ex.spawn = start
			}
			eng.explore(ex, pkg, fn, cfg, t0, &paths)
			mu.Lock()
			all = append(all, ex)
			mu.Unlock()
		}()
	}
	start(nil)
	wg.Wait()
	if firstErr != nil {
		return nil, firstErr
	}
	return mergeExplorers(all, cfg), nil
}

func mergeExplorers(all []*Explorer, cfg HarnessCfg) *Explorer {
	m := &Explorer{Harness: cfg.Label, Params: cfg.Params, Tier: cfg.Tier, Reached: map[string]int{}, Covered: map[string]bool{}, Stubbed: map[string]bool{}}
	for _, e := range all {
		m.Paths += e.Paths
		m.PathsInfeas += e.PathsInfeas
		m.Obligations += e.Obligations
		m.Discharged += e.Discharged
		m.Trivial += e.Trivial
		m.Decisions += e.Decisions
		m.UnknownBranch += e.UnknownBranch
		m.CrossDisagree += e.CrossDisagree
		m.Merges += e.Merges
		for k, v := range e.Reached {
			m.Reached[k] += v
		}
		for k := range e.Covered {
			m.Covered[k] = true
		}
		for k := range e.Stubbed {
			m.Stubbed[k] = true
		}
		for _, s := range e.Samples {
			if len(m.Samples) < 6 {
				m.Samples = append(m.Samples, s)
			}
		}
		for _, ic := range e.Inconcl {
			m.inconclusive(ic.Kind, ic.Msg)
		}
		for _, f := range e.Findings {
			dup := false
			for _, g := range m.Findings {
				if g.Kind == f.Kind && g.Msg == f.Msg && g.Pos == f.Pos {
					dup = true
				}
			}
			if !dup {
				m.Findings = append(m.Findings, f)
			}
		}
	}
	m.Workers = len(all)
	// existential obligations: every expected coverage goal must be reached on
	// at least one feasible path
	for k := range m.Reached {
		if strings.HasPrefix(k, "expect:") {
			tag := strings.TrimPrefix(k, "expect:")
			m.Obligations++
			if m.Reached["cover:"+tag] > 0 {
				m.Discharged++
			} else if len(m.Inconcl) == 0 {
				m.Findings = append(m.Findings, &Finding{Harness: m.Harness, Kind: "cover", Msg: "no feasible path reaches coverage goal " + tag,
					Model: map[string]string{}, Params: m.Params, Tier: m.Tier})
			}
		}
	}
	return m
}

func (eng *Engine) explore(ex *Explorer, pkg *ssa.Package, fn *ssa.Function, cfg HarnessCfg, t0 time.Time, paths *int64) {
	tLast := time.Now()
	for {
		ex.beginRun()
		i := eng.newInterp(ex, pkg)
		ex.posHook = func() string {
			if i.curFrame != nil && i.curFrame.pos != token.NoPos {
				return eng.Prog.Fset.Position(i.curFrame.pos).String()
			}
			return ""
		}
		eng.runOnce(i, fn)
		ex.endRun()
		ex.Paths++
		total := atomic.AddInt64(paths, 1)
		if os.Getenv("VERIF_PROGRESS") != "" && time.Since(tLast) > 5*time.Second {
			tLast = time.Now()
			fmt.Fprintf(os.Stderr, "[%s] worker paths=%d (all workers %d) decisions=%d obligations=%d findings=%d inconcl=%d t=%.0fs\n",
				ex.Harness, ex.Paths, total, ex.Decisions, ex.Obligations, len(ex.Findings), len(ex.Inconcl), time.Since(t0).Seconds())
		}
		if len(ex.Findings) >= ex.MaxFindings {
			ex.inconclusive("search-cut", "stopped after reaching the finding limit")
			break
		}
		if !ex.next() {
			break
		}
		if total >= int64(cfg.MaxPaths) {
			ex.inconclusive("path-limit", fmt.Sprintf("more than %d paths", cfg.MaxPaths))
			break
		}
		if time.Since(t0) > cfg.Deadline {
			ex.inconclusive("deadline", fmt.Sprintf("exploration exceeded %v", cfg.Deadline))
			break
		}
		if atomic.LoadInt32(&eng.Stop) != 0 {
			ex.Abandoned = true
			break
		}
	}
}

func (eng *Engine) runOnce(i *interpreter, fn *ssa.Function) {
	ex := i.ex
	defer func() {
		p := recover()
		if p == nil {
			return
		}
		switch p := p.(type) {
		case abortPath:
			switch p.kind {
			case abortInfeasible:
				ex.PathsInfeas++
			case abortAfterFinding:
			case abortUnsupported:
				ex.inconclusive("unsupported", p.msg+" @ "+ex.curPos())
			case abortUnwind:
				ex.inconclusive("unwind", p.msg)
			case abortBudget:
				ex.inconclusive("budget", p.msg)
			case abortDeadlock:
				ex.inconclusive("deadlock", p.msg+" @ "+ex.curPos())
			}
			return
		}
		if isTargetPanic(p) {
			msg := fmt.Sprint(p)
			if tp, ok := p.(targetPanic); ok {
				msg = panicText(i, tp)
			}
			r, m := ex.S.Check(nil, ex.modelVars())
			if r == smt.Unsat {
				ex.PathsInfeas++
				return
			}
			ex.Obligations++
			ex.addFinding("panic", msg, ex.curPos(), m)
			return
		}
		// engine failure: never a verdict
		msg := fmt.Sprint(p)
		if os.Getenv("VERIF_DEBUG") != "" {
			fmt.Fprintf(os.Stderr, "engine panic: %v\n%s\n", p, debug.Stack())
		}
		ex.inconclusive("engine-error", clip(msg, 300)+" @ "+ex.curPos())
	}()
	call(i, nil, token.NoPos, fn, nil)
}

func panicText(i *interpreter, p targetPanic) string {
	switch v := p.v.(type) {
	case string:
		return v
	case iface:
		if v.t != nil {
			if m := findMethod(i, v.t, "Error"); m != nil {
				func() {
					defer func() { recover() }()
					r := call(i, nil, token.NoPos, m, []value{v.v})
					if s, ok := r.(string); ok {
						p.v = s
					}
				}()
				if s, ok := p.v.(string); ok {
					return s
				}
			}
			if s, ok := v.v.(string); ok {
				return s
			}
		}
		return fmt.Sprintf("panic(%v)", v.t)
	}
	return fmt.Sprintf("panic(%T)", p.v)
}

// findMethod returns the exported method name of type t, or nil.
func findMethod(i *interpreter, t types.Type, name string) *ssa.Function {
	sel := i.prog.MethodSets.MethodSet(t).Lookup(nil, name)
	if sel == nil {
		return nil
	}
	return i.prog.MethodValue(sel)
}
