package symgo

// Thread-tree extraction for gobmc: every goroutine body of a concurrent
// harness is explored by the symbolic executor IN ISOLATION. Each visible
// operation (channel op, select, go, mutex, WaitGroup, atomic, declared shared
// cell, ghost cell, assertion) ends a segment and is recorded as an event; its
// outcome (select index, received value and ok, loaded value) is a decision or
// a fresh symbol. Invisible code between events runs as in the sequential
// engine. The result per thread template is a set of event paths that the BMC
// layer merges into a prefix tree.

import (
	"fmt"
	"go/token"
	"go/types"
	"sort"
	"strings"

	"golang.org/x/tools/go/ssa"
	"verif/engine/smt"
)

type SelCase struct {
	Send bool
	Obj  string
}

type Event struct {
	Kind     string // send recv close select spawn lock unlock wgadd wgwait aload astore aadd acas load store assert tau exit panic
	Obj      string
	Cases    []SelCase // select
	Default  bool      // select has a default branch
	Choice   int       // select: chosen case (-1 default); acas: 1 success / 0 failure; tau/assert: 1 holds / 0 fails; recv: 1 value / 0 closed
	Val      *smt.Term // send payload, store value, add delta, cas new value
	Old      *smt.Term // cas expected value
	Sym      *smt.Term // fresh symbol bound by the event (recv payload, loaded value, add result)
	Guard    *smt.Term // tau / assert condition (as taken: Choice tells whether it holds)
	Template string    // spawn
	Msg      string    // assert / panic message
	Pos      string
	Plain    bool    // load/store: non-atomic access (data-race candidate)
	Width    int     // bit width of the cell / payload
	Post     []Event // ghost-cell updates fused into this event (applied atomically after it)
}

type ThreadPath struct {
	Events []Event
	Vars   []*smt.Term // nondeterministic inputs created on this path
}

type Template struct {
	Name   string
	Paths  []*ThreadPath
	origin [][]dec // decision vectors of the ancestor threads that lead to a spawn of this template
	chain  []string
}

type ObjInfo struct {
	Name  string
	Kind  string // chan mutex wg cell
	Cap   int
	Width int
	Init  uint64
}

type TreeResult struct {
	Written   map[string]bool // pass 1: pre-existing memory slots written by some goroutine
	Opaque    bool            // some shared memory is not integer-typed (value not tracked)
	Templates map[string]*Template
	Order     []string
	Objects   map[string]*ObjInfo
	Root      string
	Ex        *Explorer
	Ctx       *smt.Ctx
}

type spawnRec struct {
	template string
	fn       value
	args     []value
}

type chanCodec struct {
	enc, dec value
}

// treeConc is the concHandler used during extraction.
type treeConc struct {
	i         *interpreter
	path      *ThreadPath
	spawns    []spawnRec
	names     map[interface{}]string // object identity -> stable name
	objs      map[string]*ObjInfo
	counter   map[string]int
	codecs    map[*channel]chanCodec
	shared    map[*value]string
	ghost     map[string]*value
	maxEvents int
	maxRecv   int
	// automatic detection of shared memory: pre = slots that existed when the
	// current thread started (name by allocation order); written = pre-existing
	// slots some thread stores to (pass 1); auto = names treated as shared (pass 2)
	pre       map[*value]string
	written   map[string]bool
	auto      map[string]bool
	discover  bool
	used      map[string]bool
	recvCount map[string]int
	opaque    bool
	// localFrom: allocations with an index >= localFrom were made by the thread
	// being extracted itself (-1 for the root, whose objects every thread it
	// starts can see); lockedLocal tracks its private mutexes
	localFrom   int
	lockedLocal map[*value]bool
	isChild     bool
}

func (t *treeConc) pos(fr *frame) string {
	if fr != nil && fr.pos != token.NoPos {
		p := t.i.prog.Fset.Position(fr.pos)
		return fmt.Sprintf("%s:%d", shortFile(p.Filename), p.Line)
	}
	return ""
}

func shortFile(f string) string {
	if k := strings.LastIndex(f, "/"); k >= 0 {
		return f[k+1:]
	}
	return f
}

func (t *treeConc) emit(e Event) {
	t.path.Events = append(t.path.Events, e)
	if t.maxEvents > 0 && len(t.path.Events) >= t.maxEvents && e.Kind != "cut" && e.Kind != "exit" && e.Kind != "fail" && e.Kind != "panic" {
		// bound on the length of one thread's path: the BMC checks that this
		// node is unreachable (unwinding assertion); otherwise the bound is too small
		t.path.Events = append(t.path.Events, Event{Kind: "cut", Pos: e.Pos})
		panic(abortPath{abortAfterFinding, "thread path bound"})
	}
}

// nameOf assigns stable names to shared objects in order of first use.
func (t *treeConc) nameOf(kind string, key interface{}, hint string, mk func(name string) *ObjInfo) string {
	if n, ok := t.names[key]; ok {
		return n
	}
	t.counter[kind]++
	n := fmt.Sprintf("%s%d", kind, t.counter[kind])
	if hint != "" {
		n = kind + "_" + sanitize(hint)
		if t.used[n] {
			n = fmt.Sprintf("%s_%d", n, t.counter[kind])
		}
	}
	t.used[n] = true
	t.names[key] = n
	if _, known := t.objs[n]; !known {
		t.objs[n] = mk(n)
	}
	return n
}

func (t *treeConc) chanName(ch *channel) string {
	if ch == nil {
		return "nilchan"
	}
	hint := ch.label
	if hint == "" && ch.pos != token.NoPos {
		p := t.i.prog.Fset.Position(ch.pos)
		hint = fmt.Sprintf("%d_%s_%d", ch.id, strings.TrimSuffix(shortFile(p.Filename), ".go"), p.Line)
	}
	n := t.nameOf("chan", ch, hint, func(n string) *ObjInfo { return &ObjInfo{Name: n, Kind: "chan", Cap: ch.cap, Width: 64} })
	if oi := t.objs[n]; oi != nil && oi.Cap != ch.cap {
		// one object of the model, one capacity: a capacity that depends on a
		// symbolic value would silently be modelled with the first one seen
		unsupported("channel %s has capacity %d on one path and %d on another (make(chan T, n) with symbolic n)", n, oi.Cap, ch.cap)
	}
	return n
}

func (t *treeConc) choice(n int) int {
	conds := make([]*smt.Term, n)
	for k := range conds {
		conds[k] = t.i.ex.Ctx.BoolC(true)
	}
	return t.i.ex.Choose(conds)
}

func (t *treeConc) payload(fr *frame, ch *channel, v value) *smt.Term {
	if c, ok := t.codecs[ch]; ok {
		return t.i.term(call(t.i, fr, token.NoPos, c.enc, []value{v}))
	}
	if _, ok := kindOf(v); ok {
		k, _ := kindOf(v)
		if bits, _, isInt := kindInfo(k); isInt {
			tt := t.i.term(v)
			if bits < 64 {
				tt = t.i.ex.Ctx.ZeroExt(tt, 64)
			}
			return tt
		}
	}
	return nil // payload not tracked (struct{} or untracked type)
}

func (t *treeConc) send(fr *frame, ch *channel, v value) {
	if ch == nil {
		deadlock("send on nil channel")
	}
	t.emit(Event{Kind: "send", Obj: t.chanName(ch), Val: t.payload(fr, ch, v), Pos: t.pos(fr)})
}

func (t *treeConc) recvValue(fr *frame, ch *channel) (value, *smt.Term) {
	if c, ok := t.codecs[ch]; ok {
		s := t.i.ex.fresh("recv_"+t.chanName(ch), smt.BV(64), "recv")
		return call(t.i, fr, token.NoPos, c.dec, []value{sym{s, types.Uint64}}), s
	}
	if b, ok := ch.elemT.Underlying().(*types.Basic); ok {
		if bits, _, isInt := kindInfo(b.Kind()); isInt {
			s := t.i.ex.fresh("recv_"+t.chanName(ch), smt.BV(64), "recv")
			var v value = sym{s, types.Uint64}
			_ = bits
			return t.i.symConv(b.Kind(), v.(sym)), s
		}
	}
	return zero(ch.elemT), nil
}

func (t *treeConc) recv(fr *frame, ch *channel) (value, bool) {
	if ch == nil {
		deadlock("receive from nil channel")
	}
	name := t.chanName(ch)
	if t.choice(2) == 0 {
		over := t.countRecv(name)
		v, s := t.recvValue(fr, ch)
		t.emit(Event{Kind: "recv", Obj: name, Choice: 1, Sym: s, Pos: t.pos(fr)})
		if over {
			t.cut(name, fr)
		}
		return v, true
	}
	t.emit(Event{Kind: "recv", Obj: name, Choice: 0, Pos: t.pos(fr)})
	return nil, false
}

// countRecv bounds the number of values one thread path receives from one
// channel; exceeding it ends the path in a cut node whose unreachability the
// BMC has to show (unwinding assertion).
func (t *treeConc) countRecv(name string) bool {
	t.recvCount[name]++
	return t.maxRecv > 0 && t.recvCount[name] > t.maxRecv
}

func (t *treeConc) cut(name string, fr *frame) {
	t.path.Events = append(t.path.Events, Event{Kind: "cut", Obj: name, Pos: t.pos(fr)})
	panic(abortPath{abortAfterFinding, "receive bound"})
}

func (t *treeConc) closeChan(fr *frame, ch *channel) {
	if ch == nil {
		panic(targetPanic{"close of nil channel"})
	}
	t.emit(Event{Kind: "close", Obj: t.chanName(ch), Pos: t.pos(fr)})
}

func (t *treeConc) sel(fr *frame, instr *ssa.Select) value {
	var cases []SelCase
	var chans []*channel
	for _, st := range instr.States {
		ch, _ := fr.get(st.Chan).(*channel)
		chans = append(chans, ch)
		cases = append(cases, SelCase{Send: st.Dir == types.SendOnly, Obj: t.chanName(ch)})
	}
	// outcomes: each case; a receive case either gets a value or sees the channel closed; default
	type outcome struct {
		idx    int
		closed bool
	}
	var outs []outcome
	for k, c := range cases {
		if chans[k] == nil {
			continue // a nil channel never proceeds
		}
		outs = append(outs, outcome{k, false})
		if !c.Send {
			outs = append(outs, outcome{k, true})
		}
	}
	if !instr.Blocking {
		outs = append(outs, outcome{-1, false})
	}
	if len(outs) == 0 {
		deadlock("select with no case that can ever proceed")
	}
	o := outs[t.choice(len(outs))]
	ev := Event{Kind: "select", Cases: cases, Default: !instr.Blocking, Choice: o.idx, Pos: t.pos(fr)}
	overRecv := false
	r := tuple{o.idx, false}
	for k, st := range instr.States {
		if st.Dir == types.RecvOnly {
			var v value
			if k == o.idx && !o.closed {
				overRecv = t.countRecv(cases[k].Obj)
				rv, s := t.recvValue(fr, chans[k])
				v, ev.Sym = rv, s
				r[1] = true
			}
			if v == nil {
				v = zero(st.Chan.Type().Underlying().(*types.Chan).Elem())
			}
			r = append(r, v)
		} else if k == o.idx {
			ev.Val = t.payload(fr, chans[k], fr.get(st.Send))
		}
	}
	if o.closed {
		ev.Msg = "closed"
	}
	t.emit(ev)
	if overRecv {
		t.cut(cases[o.idx].Obj, fr)
	}
	return r
}

func (t *treeConc) spawn(fr *frame, instr *ssa.Go, fn value, args []value) {
	name := ""
	switch f := fn.(type) {
	case *ssa.Function:
		name = f.String()
	case *closure:
		name = f.Fn.String()
	default:
		unsupported("go statement with %T", fn)
	}
	// goroutines started from one go statement with different captured scalars
	// (a loop index, say) behave differently: they are separate templates
	var sig []string
	scal := func(v value) {
		if p, ok := v.(*value); ok && p != nil {
			v = *p
		}
		if k, ok := kindOf(v); ok && !isSym(v) {
			if _, _, isInt := kindInfo(k); isInt || k == types.Bool {
				sig = append(sig, fmt.Sprint(v))
			}
		}
	}
	if cl, ok := fn.(*closure); ok {
		for _, b := range cl.Env {
			scal(b)
		}
	}
	for _, a := range args {
		scal(a)
	}
	if len(sig) > 0 {
		name += "#" + strings.Join(sig, ",")
	}
	t.spawns = append(t.spawns, spawnRec{name, fn, args})
	t.emit(Event{Kind: "spawn", Template: name, Pos: t.pos(fr)})
	if t.discover || len(t.auto) > 0 {
		t.indexPre() // what this thread allocated so far is now visible to the new goroutine
	}
}

// allocPath names a memory cell by the allocation (in program order) that
// contains it and the field path inside it, which is stable across runs.
func (t *treeConc) allocPath(p *value) string {
	var search func(cell *value, path string, depth int) string
	search = func(cell *value, path string, depth int) string {
		if cell == p {
			return path
		}
		if depth > 4 {
			return ""
		}
		switch v := (*cell).(type) {
		case structure:
			for k := range v {
				if r := search(&v[k], fmt.Sprintf("%s_f%d", path, k), depth+1); r != "" {
					return r
				}
			}
		case array:
			if len(v) <= 16 {
				for k := range v {
					if r := search(&v[k], fmt.Sprintf("%s_e%d", path, k), depth+1); r != "" {
						return r
					}
				}
			}
		}
		return ""
	}
	for idx, cell := range t.i.allocs {
		if r := search(cell, fmt.Sprintf("a%d", idx), 0); r != "" {
			return r
		}
	}
	return ""
}

func (t *treeConc) syncObj(kind string, obj *value, hint string) string {
	if hint == "" {
		hint = t.allocPath(obj)
	}
	return t.nameOf(kind, obj, hint, func(n string) *ObjInfo { return &ObjInfo{Name: n, Kind: kind, Width: 8} })
}

// isLocal reports whether the object at p lives in memory the thread being
// extracted allocated itself and cannot have handed to anybody (it has not
// started a goroutine): no other thread can operate on it, and two instances of
// the thread each have their own, so it must not become a named shared object.
func (t *treeConc) isLocal(p *value) bool {
	if t.localFrom < 0 || len(t.spawns) > 0 || p == nil {
		return false
	}
	var inside func(cell *value, depth int) bool
	inside = func(cell *value, depth int) bool {
		if cell == p {
			return true
		}
		if depth > 4 {
			return false
		}
		switch v := (*cell).(type) {
		case structure:
			for k := range v {
				if inside(&v[k], depth+1) {
					return true
				}
			}
		case array:
			if len(v) <= 16 {
				for k := range v {
					if inside(&v[k], depth+1) {
						return true
					}
				}
			}
		}
		return false
	}
	for idx := t.localFrom; idx < len(t.i.allocs); idx++ {
		if inside(t.i.allocs[idx], 0) {
			return true
		}
	}
	return false
}

func (t *treeConc) syncOp(fr *frame, op string, obj *value, args []value) value {
	if t.isLocal(obj) {
		switch op {
		case "Mutex.Lock", "RWMutex.Lock":
			if t.lockedLocal[obj] {
				deadlock("goroutine locks its own private mutex twice")
			}
			t.lockedLocal[obj] = true
			return nil
		case "Mutex.Unlock", "RWMutex.Unlock":
			if !t.lockedLocal[obj] {
				panic(targetPanic{"sync: unlock of unlocked mutex"})
			}
			delete(t.lockedLocal, obj)
			return nil
		}
	}
	switch op {
	case "Mutex.Lock", "RWMutex.Lock":
		t.emit(Event{Kind: "lock", Obj: t.syncObj("mutex", obj, ""), Pos: t.pos(fr)})
	case "Mutex.Unlock", "RWMutex.Unlock":
		t.emit(Event{Kind: "unlock", Obj: t.syncObj("mutex", obj, ""), Pos: t.pos(fr)})
	case "WaitGroup.Add":
		d := asInt64(t.i.concretize(args[0], -8, 8, "WaitGroup delta"))
		t.emit(Event{Kind: "wgadd", Obj: t.syncObj("wg", obj, ""), Val: t.i.ex.Ctx.BVC(8, uint64(d)), Pos: t.pos(fr)})
	case "WaitGroup.Wait":
		t.emit(Event{Kind: "wgwait", Obj: t.syncObj("wg", obj, ""), Pos: t.pos(fr)})
	default:
		unsupported("sync operation %s in a concurrent harness", op)
	}
	return nil
}

// cellName names a shared memory cell (atomic target, declared shared
// variable or ghost cell) and records its initial value.
func (t *treeConc) cellName(addr *value, hint string) string {
	if n, ok := t.shared[addr]; ok {
		return n
	}
	if hint == "" {
		hint = t.allocPath(addr)
	}
	return t.nameOf("cell", addr, hint, func(n string) *ObjInfo {
		oi := &ObjInfo{Name: n, Kind: "cell", Width: 64}
		if k, ok := kindOf(*addr); ok && !isSym(*addr) {
			if bits, _, isInt := kindInfo(k); isInt {
				_ = bits
				oi.Init = uint64(asInt64(*addr))
			}
		}
		return oi
	})
}

func (t *treeConc) cellKind(addr *value) types.BasicKind {
	if k, ok := kindOf(*addr); ok {
		if _, _, isInt := kindInfo(k); isInt {
			return k
		}
	}
	unsupported("shared cell of non-integer type %T", *addr)
	return 0
}

func (t *treeConc) to64(v value) *smt.Term {
	k, _ := kindOf(v)
	bits, signed, _ := kindInfo(k)
	tt := t.i.term(v)
	if bits < 64 {
		if signed {
			return t.i.ex.Ctx.SignExt(tt, 64)
		}
		return t.i.ex.Ctx.ZeroExt(tt, 64)
	}
	return tt
}

func (t *treeConc) from64(s *smt.Term, k types.BasicKind) value {
	return t.i.symConv(k, sym{s, types.Uint64})
}

func (t *treeConc) cellOp(fr *frame, op string, addr *value, args []value, plain bool, hint string) value {
	if addr == nil {
		panic(targetPanic{"invalid memory address or nil pointer dereference"})
	}
	if r, done := t.preSpawnOp(op, addr, args, plain); done {
		return r
	}
	name := t.cellName(addr, hint)
	k := t.cellKind(addr)
	c := t.i.ex.Ctx
	switch op {
	case "load":
		s := t.i.ex.fresh("load_"+name, smt.BV(64), "load")
		t.emit(Event{Kind: "load", Obj: name, Sym: s, Plain: plain, Pos: t.pos(fr)})
		return t.from64(s, k)
	case "store":
		t.emit(Event{Kind: "store", Obj: name, Val: t.to64(args[0]), Plain: plain, Pos: t.pos(fr)})
		return nil
	case "add":
		s := t.i.ex.fresh("add_"+name, smt.BV(64), "load")
		t.emit(Event{Kind: "aadd", Obj: name, Val: t.to64(args[0]), Sym: s, Pos: t.pos(fr)})
		return t.from64(s, k)
	case "swap":
		s := t.i.ex.fresh("swap_"+name, smt.BV(64), "load")
		t.emit(Event{Kind: "aswap", Obj: name, Val: t.to64(args[0]), Sym: s, Pos: t.pos(fr)})
		return t.from64(s, k)
	case "cas":
		ok := t.choice(2) == 0
		ch := 0
		if ok {
			ch = 1
		}
		t.emit(Event{Kind: "acas", Obj: name, Old: t.to64(args[0]), Val: t.to64(args[1]), Choice: ch, Pos: t.pos(fr)})
		_ = c
		return ok
	}
	unsupported("cell operation %s", op)
	return nil
}

// preSpawnOp executes an atomic operation of the root directly on memory when
// nothing can interleave with it and nothing about it is symbolic: no goroutine
// has been started yet, no decision has been taken on this path (so every path
// of every thread replays exactly this prefix), the cell has not been named
// (its initial value for the BMC is captured at its first event) and all
// operands are concrete.
func (t *treeConc) preSpawnOp(op string, addr *value, args []value, plain bool) (value, bool) {
	if plain || len(t.spawns) > 0 || len(t.i.ex.trail) > 0 || len(t.i.ex.pc) > 0 {
		return nil, false
	}
	if _, named := t.names[addr]; named {
		return nil, false
	}
	if _, named := t.shared[addr]; named {
		return nil, false
	}
	k, ok := kindOf(*addr)
	if !ok || isSym(*addr) {
		return nil, false
	}
	if _, _, isInt := kindInfo(k); !isInt {
		return nil, false
	}
	for _, a := range args {
		if isSym(a) {
			return nil, false
		}
	}
	cur := asInt64(*addr)
	set := func(x int64) { *addr = concreteOfKind(k, uint64(x)) }
	switch op {
	case "load":
		return *addr, true
	case "store":
		set(asInt64(args[0]))
		return nil, true
	case "add":
		set(cur + asInt64(args[0]))
		return *addr, true
	case "swap":
		old := *addr
		set(asInt64(args[0]))
		return old, true
	case "cas":
		if cur == asInt64(args[0]) {
			set(asInt64(args[1]))
			return true, true
		}
		return false, true
	}
	return nil, false
}

func (t *treeConc) atomicOp(fr *frame, op string, addr *value, args []value) value {
	return t.cellOp(fr, op, addr, args, false, "")
}

// indexPre records every memory slot that exists now (heap allocations and
// slices with their nested struct/array slots).
func (t *treeConc) indexPre() {
	t.pre = map[*value]string{}
	var walk func(cell *value, name string, depth int)
	walk = func(cell *value, name string, depth int) {
		t.pre[cell] = name
		if depth > 5 {
			return
		}
		switch v := (*cell).(type) {
		case structure:
			for k := range v {
				walk(&v[k], fmt.Sprintf("%s_f%d", name, k), depth+1)
			}
		case array:
			if len(v) <= 64 {
				for k := range v {
					walk(&v[k], fmt.Sprintf("%s_e%d", name, k), depth+1)
				}
			}
		}
	}
	for idx, cell := range t.i.allocs {
		walk(cell, fmt.Sprintf("a%d", idx), 0)
	}
	for idx, sl := range t.i.slices {
		full := sl[:cap(sl)]
		for k := range full {
			walk(&full[k], fmt.Sprintf("s%d_e%d", idx, k), 1)
		}
	}
}

// sharedAccess is called for every load/store through a pointer in tree mode.
// It returns (value, true) when the access was turned into an event.
func (t *treeConc) sharedAccess(fr *frame, addr *value, store bool, v value) (value, bool) {
	if t.pre == nil {
		return nil, false
	}
	name, ok := t.pre[addr]
	if !ok {
		return nil, false
	}
	if t.discover {
		if store {
			t.written[name] = true
		}
		return nil, false
	}
	if !t.auto[name] {
		return nil, false
	}
	cell := "cell_auto_" + name
	if _, known := t.objs[cell]; !known {
		oi := &ObjInfo{Name: cell, Kind: "cell", Width: 64}
		if k, isK := kindOf(*addr); isK && !isSym(*addr) {
			if _, _, isInt := kindInfo(k); isInt {
				oi.Init = uint64(asInt64(*addr))
			}
		}
		t.objs[cell] = oi
	}
	if k, isK := kindOf(*addr); isK {
		if _, _, isInt := kindInfo(k); isInt {
			// integer cell: value tracked by the BMC
			t.shared[addr] = cell
			if store {
				t.cellOp(fr, "store", addr, []value{v}, true, "")
				return nil, true
			}
			return t.cellOp(fr, "load", addr, nil, true, ""), true
		}
	}
	// other types: the access is an event for the race query, the value is the
	// thread's own view (such models must not be used for value-dependent queries)
	t.opaque = true
	if store {
		t.emit(Event{Kind: "store", Obj: cell, Plain: true, Pos: t.pos(fr)})
		return nil, false
	}
	t.emit(Event{Kind: "load", Obj: cell, Plain: true, Pos: t.pos(fr)})
	return nil, false
}

// ---- extraction driver ----

type TreeCfg struct {
	HarnessCfg
	MaxPathsPerThread int
}

// runThread executes one thread body in tree mode and returns its path.
func (eng *Engine) runThread(i *interpreter, tc *treeConc, fn value, args []value) (p *ThreadPath, aborted *abortPath) {
	tc.path = &ThreadPath{}
	tc.recvCount = map[string]int{}
	tc.localFrom = -1
	if fn != nil && !i.ex.muted && tc.isChild {
		tc.localFrom = len(i.allocs)
	}
	tc.lockedLocal = map[*value]bool{}
	if tc.discover || len(tc.auto) > 0 {
		tc.indexPre()
	}
	nv := len(i.ex.nondets)
	defer func() {
		for _, n := range i.ex.nondets[nv:] {
			tc.path.Vars = append(tc.path.Vars, n.t)
		}
		p = tc.path
		if r := recover(); r != nil {
			switch r := r.(type) {
			case abortPath:
				if r.kind == abortAfterFinding {
					return
				}
				aborted = &r
				return
			}
			if isTargetPanic(r) {
				msg := fmt.Sprint(r)
				if tp, ok := r.(targetPanic); ok {
					msg = panicText(i, tp)
				}
				tc.emit(Event{Kind: "panic", Msg: msg, Pos: i.ex.curPos()})
				return
			}
			a := abortPath{abortUnsupported, "engine-error: " + clip(fmt.Sprint(r), 200)}
			aborted = &a
		}
	}()
	call(i, nil, token.NoPos, fn, args)
	tc.emit(Event{Kind: "exit"})
	return
}

// ExtractTrees explores every thread template reachable from the harness.
func (eng *Engine) ExtractTrees(cfg HarnessCfg) (*TreeResult, error) {
	pkg := eng.SSAPkgs[cfg.Pkg]
	if pkg == nil {
		return nil, fmt.Errorf("package %s not loaded", cfg.Pkg)
	}
	root := pkg.Func(cfg.Func)
	if root == nil {
		return nil, fmt.Errorf("harness %s.%s not found", cfg.Pkg, cfg.Func)
	}
	if cfg.Solver == "" {
		cfg.Solver = "z3"
	}
	if cfg.TimeoutMs == 0 {
		cfg.TimeoutMs = 10000
	}
	ex, err := NewExplorer(cfg.Solver, false, eng.Stats, cfg.TimeoutMs)
	if err != nil {
		return nil, err
	}
	defer ex.Close()
	ex.Harness, ex.Params, ex.Tier = cfg.Label, cfg.Params, cfg.Tier
	ex.TreeMode = true
	if cfg.Unwind > 0 {
		ex.Unwind = cfg.Unwind
	}
	res := &TreeResult{Written: map[string]bool{}, Templates: map[string]*Template{}, Objects: map[string]*ObjInfo{}, Root: root.String(), Ex: ex, Ctx: ex.Ctx}
	res.Templates[res.Root] = &Template{Name: res.Root}
	res.Order = []string{res.Root}
	maxPaths := 4000
	for qi := 0; qi < len(res.Order); qi++ {
		tmpl := res.Templates[res.Order[qi]]
		// fixed decisions of the ancestors, then free exploration of this thread
		var prefix []dec
		for _, v := range tmpl.origin {
			prefix = append(prefix, v...)
		}
		ex.prefix = append([]dec{}, prefix...)
		ex.baseLen = len(prefix)
		ex.pending = nil
		ex.trail = ex.trail[:0]
		for {
			ex.beginRun()
			i := eng.newInterp(ex, pkg)
			tc := &treeConc{i: i, names: map[interface{}]string{}, objs: res.Objects, counter: map[string]int{}, codecs: map[*channel]chanCodec{}, shared: map[*value]string{}, ghost: map[string]*value{}, maxEvents: cfg.MaxEvents, maxRecv: cfg.MaxRecv, used: map[string]bool{},
				discover: cfg.Discover, written: res.Written, auto: cfg.AutoShared}
			i.conc = tc
			i.tree = tc
			ex.onAssume = func(g *smt.Term) {
				if tc.path != nil {
					tc.emit(Event{Kind: "tau", Guard: g, Choice: 1, Pos: ex.curPos()})
				}
			}
			ex.posHook = func() string {
				if i.curFrame != nil && i.curFrame.pos != token.NoPos {
					p := eng.Prog.Fset.Position(i.curFrame.pos)
					return fmt.Sprintf("%s:%d", shortFile(p.Filename), p.Line)
				}
				return ""
			}
			// replay the ancestor chain
			var fn value = root
			var args []value
			var path *ThreadPath
			var ab *abortPath
			ok := true
			var rootVector []dec
			for ci := 0; ci <= len(tmpl.chain); ci++ {
				tc.spawns = nil
				tc.isChild = ci > 0
				ex.muted = ci < len(tmpl.chain)
				start := len(ex.trail)
				path, ab = eng.runThread(i, tc, fn, args)
				if ci == 0 {
					rootVector = append([]dec{}, ex.trail[start:]...)
				}
				_ = rootVector
				if ci == len(tmpl.chain) {
					break
				}
				if ab != nil {
					ok = false
					break
				}
				// find the spawn of the next template of the chain
				next := tmpl.chain[ci]
				found := false
				for _, s := range tc.spawns {
					if s.template == next {
						fn, args, found = s.fn, s.args, true
						break
					}
				}
				if !found {
					ok = false
					break
				}
			}
			if ok {
				if ab != nil {
					switch ab.kind {
					case abortInfeasible:
						ex.PathsInfeas++
					default:
						ex.inconclusive(map[abortKind]string{abortUnsupported: "unsupported", abortUnwind: "unwind", abortBudget: "budget", abortDeadlock: "deadlock"}[ab.kind], tmpl.Name+": "+ab.msg+" @ "+ex.curPos())
					}
				} else {
					tmpl.Paths = append(tmpl.Paths, path)
					// discover new templates spawned on this path
					chainVectors := append([][]dec{}, tmpl.origin...)
					chainVectors = append(chainVectors, append([]dec{}, ex.trail[ex.baseLen:]...))
					for _, s := range tc.spawns {
						if _, seen := res.Templates[s.template]; !seen {
							nt := &Template{Name: s.template, origin: chainVectors, chain: append(append([]string{}, tmpl.chain...), s.template)}
							res.Templates[s.template] = nt
							res.Order = append(res.Order, s.template)
						}
					}
				}
			} else {
				ex.inconclusive("tree", "could not re-create the spawn of "+tmpl.Name)
			}
			if tc.opaque {
				res.Opaque = true
			}
			ex.endRun()
			ex.Paths++
			if !ex.next() {
				break
			}
			if len(tmpl.Paths) > maxPaths {
				ex.inconclusive("path-limit", fmt.Sprintf("thread %s has more than %d paths", tmpl.Name, maxPaths))
				break
			}
		}
	}
	names := make([]string, 0, len(res.Objects))
	for n := range res.Objects {
		names = append(names, n)
	}
	sort.Strings(names)
	return res, nil
}
