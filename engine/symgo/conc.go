package symgo

// Channels, goroutines and select. The interpreter never uses host
// goroutines: concurrency semantics are supplied by a concHandler. The
// sequential handler runs a spawned goroutine to completion at the spawn
// point and treats any operation that would block forever as a deadlock
// (the path is reported inconclusive). The thread-tree handler used by gobmc
// (see gobmc.go) records visible operations as events instead.

import (
	"fmt"
	"go/token"
	"go/types"

	"golang.org/x/tools/go/ssa"
	"verif/engine/smt"
)

type channel struct {
	id     int
	cap    int
	buf    []value
	closed bool
	elemT  types.Type
	pos    token.Pos
	label  string
}

type concHandler interface {
	send(fr *frame, ch *channel, v value)
	recv(fr *frame, ch *channel) (value, bool)
	closeChan(fr *frame, ch *channel)
	sel(fr *frame, instr *ssa.Select) value
	spawn(fr *frame, instr *ssa.Go, fn value, args []value)
	syncOp(fr *frame, op string, obj *value, args []value) value
	atomicOp(fr *frame, op string, addr *value, args []value) value
}

type seqConc struct{ i *interpreter }

func deadlock(what string) {
	panic(abortPath{abortDeadlock, what})
}

func (s *seqConc) send(fr *frame, ch *channel, v value) {
	if ch == nil {
		deadlock("send on nil channel")
	}
	if ch.closed {
		panic(targetPanic{"send on closed channel"})
	}
	if len(ch.buf) < ch.cap {
		ch.buf = append(ch.buf, v)
		return
	}
	deadlock("send on full/unbuffered channel with no receiver (sequential mode)")
}

func (s *seqConc) recv(fr *frame, ch *channel) (value, bool) {
	if ch == nil {
		deadlock("receive from nil channel")
	}
	if len(ch.buf) > 0 {
		v := ch.buf[0]
		ch.buf = ch.buf[1:]
		return v, true
	}
	if ch.closed {
		return nil, false
	}
	deadlock("receive from empty channel with no sender (sequential mode)")
	return nil, false
}

func (s *seqConc) closeChan(fr *frame, ch *channel) {
	if ch == nil {
		panic(targetPanic{"close of nil channel"})
	}
	if ch.closed {
		panic(targetPanic{"close of closed channel"})
	}
	ch.closed = true
}

func (s *seqConc) spawn(fr *frame, instr *ssa.Go, fn value, args []value) {
	// run to completion at the spawn point
	call(s.i, nil, instr.Pos(), fn, args)
}

func (s *seqConc) sel(fr *frame, instr *ssa.Select) value {
	i := s.i
	var ready []int
	for k, st := range instr.States {
		ch, _ := fr.get(st.Chan).(*channel)
		if ch == nil {
			continue
		}
		if st.Dir == types.RecvOnly {
			if len(ch.buf) > 0 || ch.closed {
				ready = append(ready, k)
			}
		} else {
			if ch.closed || len(ch.buf) < ch.cap {
				ready = append(ready, k)
			}
		}
	}
	chosen := -1
	switch {
	case len(ready) == 1:
		chosen = ready[0]
	case len(ready) > 1:
		// Go picks uniformly at random among ready cases: explore all
		conds := make([]*smt.Term, len(ready))
		for k := range conds {
			conds[k] = i.ex.Ctx.BoolC(true)
		}
		chosen = ready[i.ex.Choose(conds)]
	case instr.Blocking:
		deadlock("select with no ready case (sequential mode)")
	}
	r := tuple{chosen, false}
	for k, st := range instr.States {
		if st.Dir == types.RecvOnly {
			var v value
			if k == chosen {
				ch := fr.get(st.Chan).(*channel)
				rv, ok := s.recv(fr, ch)
				r[1] = ok
				if ok {
					v = rv
				}
			}
			if v == nil {
				v = zero(st.Chan.Type().Underlying().(*types.Chan).Elem())
			}
			r = append(r, v)
		} else if k == chosen {
			s.send(fr, fr.get(st.Chan).(*channel), fr.get(st.Send))
		}
	}
	return r
}

func (ch *channel) String() string { return fmt.Sprintf("chan#%d", ch.id) }
