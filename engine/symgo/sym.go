package symgo

// Symbolic scalar values and their operators.

import (
	"fmt"
	"go/token"
	"go/types"
	"math"
	"math/big"

	"verif/engine/smt"
)

// sym is a symbolic scalar: an SMT term together with the Go basic kind whose
// semantics (width, signedness, float) it follows.
type sym struct {
	t *smt.Term
	k types.BasicKind
}

// mathint is an unbounded mathematical integer used only by reference
// computations in harnesses (verif_mi_* intrinsics). Int-mode only.
type mathint struct{ t *smt.Term }

func kindOf(v value) (types.BasicKind, bool) {
	switch v := v.(type) {
	case sym:
		return v.k, true
	case bool:
		return types.Bool, true
	case int:
		return types.Int, true
	case int8:
		return types.Int8, true
	case int16:
		return types.Int16, true
	case int32:
		return types.Int32, true
	case int64:
		return types.Int64, true
	case uint:
		return types.Uint, true
	case uint8:
		return types.Uint8, true
	case uint16:
		return types.Uint16, true
	case uint32:
		return types.Uint32, true
	case uint64:
		return types.Uint64, true
	case uintptr:
		return types.Uintptr, true
	case float64:
		return types.Float64, true
	case float32:
		return types.Float32, true
	}
	return 0, false
}

func kindInfo(k types.BasicKind) (bits int, signed bool, isInt bool) {
	switch k {
	case types.Int, types.Int64:
		return 64, true, true
	case types.Int8:
		return 8, true, true
	case types.Int16:
		return 16, true, true
	case types.Int32:
		return 32, true, true
	case types.Uint, types.Uint64, types.Uintptr:
		return 64, false, true
	case types.Uint8:
		return 8, false, true
	case types.Uint16:
		return 16, false, true
	case types.Uint32:
		return 32, false, true
	}
	return 0, false, false
}

func basicKind(t types.Type) (types.BasicKind, bool) {
	if b, ok := t.Underlying().(*types.Basic); ok {
		k := b.Kind()
		switch k {
		case types.UntypedInt:
			k = types.Int
		case types.UntypedRune:
			k = types.Int32
		case types.UntypedFloat:
			k = types.Float64
		case types.UntypedBool:
			k = types.Bool
		}
		return k, true
	}
	return 0, false
}

func isSym(v value) bool {
	_, ok := v.(sym)
	return ok
}

// concreteOfKind builds a concrete interpreter value of kind k from raw bits.
func concreteOfKind(k types.BasicKind, u uint64) value {
	switch k {
	case types.Bool:
		return u != 0
	case types.Int:
		return int(u)
	case types.Int8:
		return int8(u)
	case types.Int16:
		return int16(u)
	case types.Int32:
		return int32(u)
	case types.Int64:
		return int64(u)
	case types.Uint:
		return uint(u)
	case types.Uint8:
		return uint8(u)
	case types.Uint16:
		return uint16(u)
	case types.Uint32:
		return uint32(u)
	case types.Uint64:
		return u
	case types.Uintptr:
		return uintptr(u)
	case types.Float64:
		return math.Float64frombits(u)
	}
	panic(fmt.Sprintf("concreteOfKind: kind %v", k))
}

func rawBits(v value) uint64 {
	switch v := v.(type) {
	case bool:
		if v {
			return 1
		}
		return 0
	case float64:
		return math.Float64bits(v)
	case float32:
		return math.Float64bits(float64(v))
	}
	return uint64(asInt64(v))
}

func (i *interpreter) sortOf(k types.BasicKind) smt.Sort {
	switch k {
	case types.Bool:
		return smt.Bool
	case types.Float64:
		return smt.FP64
	}
	bits, _, ok := kindInfo(k)
	if !ok {
		unsupported("symbolic value of kind %v", k)
	}
	if i.ex.IntMode {
		return smt.Int
	}
	return smt.BV(bits)
}

// term converts a scalar value (concrete or symbolic) to an SMT term.
func (i *interpreter) term(v value) *smt.Term {
	c := i.ex.Ctx
	switch v := v.(type) {
	case sym:
		return v.t
	case bool:
		return c.BoolC(v)
	case float64:
		return c.FPC(v)
	case float32:
		unsupported("float32 in symbolic expression")
	}
	k, ok := kindOf(v)
	if !ok {
		unsupported("term of %T", v)
	}
	bits, signed, _ := kindInfo(k)
	if i.ex.IntMode {
		if signed {
			return c.IntC(asInt64(v))
		}
		return c.IntU(uint64(asInt64(v)) & maskBits(bits))
	}
	return c.BVC(bits, uint64(asInt64(v)))
}

func maskBits(w int) uint64 {
	if w >= 64 {
		return ^uint64(0)
	}
	return (uint64(1) << uint(w)) - 1
}

// mkSym wraps a term as a value, folding constants back to concrete values so
// that concrete data stays concrete.
func (i *interpreter) mkSym(t *smt.Term, k types.BasicKind) value {
	if t.IsConst() {
		switch t.S.K {
		case smt.KBool:
			return t.U == 1
		case smt.KBV:
			if t.S.W <= 64 {
				_, signed, _ := kindInfo(k)
				u := t.U
				if signed {
					bits, _, _ := kindInfo(k)
					sh := uint(64 - bits)
					u = uint64(int64(u<<sh) >> sh)
				}
				return concreteOfKind(k, u)
			}
		case smt.KInt:
			if t.Big.IsInt64() {
				return concreteOfKind(k, uint64(t.Big.Int64()))
			}
			if t.Big.IsUint64() {
				return concreteOfKind(k, t.Big.Uint64())
			}
		case smt.KFP:
			return t.F
		}
	}
	return sym{t, k}
}

func pow2big(n int) *big.Int { return new(big.Int).Lsh(big.NewInt(1), uint(n)) }

func rangeOf(bits int, signed bool) (lo, hi *big.Int) {
	if signed {
		h := pow2big(bits - 1)
		return new(big.Int).Neg(h), new(big.Int).Sub(h, big.NewInt(1))
	}
	return big.NewInt(0), new(big.Int).Sub(pow2big(bits), big.NewInt(1))
}

// inRange builds lo <= t <= hi for an Int-mode term.
func (i *interpreter) inRange(t *smt.Term, k types.BasicKind) *smt.Term {
	c := i.ex.Ctx
	bits, signed, _ := kindInfo(k)
	lo, hi := rangeOf(bits, signed)
	return c.And(c.IntCmp("<=", c.IntBig(lo), t), c.IntCmp("<=", t, c.IntBig(hi)))
}

// wrapInt reduces an Int-mode term into the range of kind k with Go's
// wrap-around semantics. If the path condition already implies that no
// overflow is possible the raw term is kept (cheaper for the NIA solver).
func (i *interpreter) wrapInt(t *smt.Term, k types.BasicKind) *smt.Term {
	c := i.ex.Ctx
	bits, signed, _ := kindInfo(k)
	if t.IsConst() {
		m := pow2big(bits)
		v := new(big.Int).Mod(t.Big, m)
		if signed && v.Cmp(pow2big(bits-1)) >= 0 {
			v.Sub(v, m)
		}
		return c.IntBig(v)
	}
	in := i.inRange(t, k)
	if i.ex.implied(in) {
		return t
	}
	m := c.IntBig(pow2big(bits))
	var w *smt.Term
	if signed {
		h := c.IntBig(pow2big(bits - 1))
		w = c.IntN("-", c.IntN("mod", c.IntN("+", t, h), m), h)
	} else {
		w = c.IntN("mod", t, m)
	}
	return c.Ite(in, t, w)
}

func unsupported(format string, a ...interface{}) {
	panic(abortPath{kind: abortUnsupported, msg: fmt.Sprintf(format, a...)})
}

// symBinop handles a binary operator where at least one operand is symbolic.
func (i *interpreter) symBinop(op token.Token, x, y value) value {
	c := i.ex.Ctx
	kx, ok1 := kindOf(x)
	ky, ok2 := kindOf(y)
	if !ok1 || !ok2 {
		unsupported("binop %s on %T, %T", op, x, y)
	}
	// Shifts: operand kinds may differ.
	if op == token.SHL || op == token.SHR {
		return i.symShift(op, x, y, kx, ky)
	}
	if kx != ky {
		unsupported("binop %s kinds differ: %v vs %v", op, kx, ky)
	}
	a, b := i.term(x), i.term(y)
	switch kx {
	case types.Bool:
		switch op {
		case token.EQL:
			return i.mkSym(c.Eq(a, b), types.Bool)
		case token.NEQ:
			return i.mkSym(c.Not(c.Eq(a, b)), types.Bool)
		case token.AND, token.LAND:
			return i.mkSym(c.And(a, b), types.Bool)
		case token.OR, token.LOR:
			return i.mkSym(c.Or(a, b), types.Bool)
		}
		unsupported("bool binop %s", op)
	case types.Float64:
		switch op {
		case token.ADD:
			return i.mkSym(c.FP2("fp.add", a, b), kx)
		case token.SUB:
			return i.mkSym(c.FP2("fp.sub", a, b), kx)
		case token.MUL:
			return i.mkSym(c.FP2("fp.mul", a, b), kx)
		case token.QUO:
			return i.mkSym(c.FP2("fp.div", a, b), kx)
		case token.LSS:
			return i.mkSym(c.FPCmp("fp.lt", a, b), types.Bool)
		case token.LEQ:
			return i.mkSym(c.FPCmp("fp.leq", a, b), types.Bool)
		case token.GTR:
			return i.mkSym(c.FPCmp("fp.gt", a, b), types.Bool)
		case token.GEQ:
			return i.mkSym(c.FPCmp("fp.geq", a, b), types.Bool)
		case token.EQL:
			return i.mkSym(c.FPCmp("fp.eq", a, b), types.Bool)
		case token.NEQ:
			return i.mkSym(c.Not(c.FPCmp("fp.eq", a, b)), types.Bool)
		}
		unsupported("float binop %s", op)
	}
	bits, signed, isInt := kindInfo(kx)
	if !isInt {
		unsupported("binop %s on kind %v", op, kx)
	}
	if i.ex.IntMode {
		return i.symBinopInt(op, a, b, kx, bits, signed)
	}
	sel := func(s, u string) string {
		if signed {
			return s
		}
		return u
	}
	switch op {
	case token.ADD:
		return i.mkSym(c.BV2("bvadd", a, b), kx)
	case token.SUB:
		return i.mkSym(c.BV2("bvsub", a, b), kx)
	case token.MUL:
		return i.mkSym(c.BV2("bvmul", a, b), kx)
	case token.QUO, token.REM:
		i.ex.requireNot(c.Eq(b, c.BVC(bits, 0)), "integer divide by zero")
		if op == token.QUO {
			return i.mkSym(c.BV2(sel("bvsdiv", "bvudiv"), a, b), kx)
		}
		return i.mkSym(c.BV2(sel("bvsrem", "bvurem"), a, b), kx)
	case token.AND:
		return i.mkSym(c.BV2("bvand", a, b), kx)
	case token.OR:
		return i.mkSym(c.BV2("bvor", a, b), kx)
	case token.XOR:
		return i.mkSym(c.BV2("bvxor", a, b), kx)
	case token.AND_NOT:
		return i.mkSym(c.BV2("bvand", a, c.BVNot(b)), kx)
	case token.LSS:
		return i.mkSym(c.BVCmp(sel("bvslt", "bvult"), a, b), types.Bool)
	case token.LEQ:
		return i.mkSym(c.BVCmp(sel("bvsle", "bvule"), a, b), types.Bool)
	case token.GTR:
		return i.mkSym(c.BVCmp(sel("bvslt", "bvult"), b, a), types.Bool)
	case token.GEQ:
		return i.mkSym(c.BVCmp(sel("bvsle", "bvule"), b, a), types.Bool)
	case token.EQL:
		return i.mkSym(c.Eq(a, b), types.Bool)
	case token.NEQ:
		return i.mkSym(c.Not(c.Eq(a, b)), types.Bool)
	}
	unsupported("int binop %s", op)
	return nil
}

func (i *interpreter) symBinopInt(op token.Token, a, b *smt.Term, k types.BasicKind, bits int, signed bool) value {
	c := i.ex.Ctx
	switch op {
	case token.ADD:
		return i.mkSym(i.wrapInt(c.IntN("+", a, b), k), k)
	case token.SUB:
		return i.mkSym(i.wrapInt(c.IntN("-", a, b), k), k)
	case token.MUL:
		return i.mkSym(i.wrapInt(c.IntN("*", a, b), k), k)
	case token.QUO:
		i.ex.requireNot(c.Eq(b, c.IntC(0)), "integer divide by zero")
		q := c.IntN("tdiv", a, b)
		if signed {
			q = i.wrapInt(q, k) // MinInt / -1
		}
		return i.mkSym(q, k)
	case token.REM:
		i.ex.requireNot(c.Eq(b, c.IntC(0)), "integer divide by zero")
		return i.mkSym(c.IntN("trem", a, b), k)
	case token.LSS:
		return i.mkSym(c.IntCmp("<", a, b), types.Bool)
	case token.LEQ:
		return i.mkSym(c.IntCmp("<=", a, b), types.Bool)
	case token.GTR:
		return i.mkSym(c.IntCmp(">", a, b), types.Bool)
	case token.GEQ:
		return i.mkSym(c.IntCmp(">=", a, b), types.Bool)
	case token.EQL:
		return i.mkSym(c.Eq(a, b), types.Bool)
	case token.NEQ:
		return i.mkSym(c.Not(c.Eq(a, b)), types.Bool)
	case token.AND:
		// x & (2^n - 1) for non-negative x
		if b.IsConst() && !signed {
			v := new(big.Int).Add(b.Big, big.NewInt(1))
			if v.BitLen() > 0 && new(big.Int).And(v, b.Big).Sign() == 0 {
				return i.mkSym(c.IntN("mod", a, c.IntBig(v)), k)
			}
		}
	}
	unsupported("int-mode binop %s", op)
	return nil
}

func (i *interpreter) symShift(op token.Token, x, y value, kx, ky types.BasicKind) value {
	c := i.ex.Ctx
	bits, signed, isInt := kindInfo(kx)
	cb, csigned, cInt := kindInfo(ky)
	if !isInt || !cInt {
		unsupported("shift on %v by %v", kx, ky)
	}
	if i.ex.IntMode {
		if isSym(y) {
			unsupported("int-mode shift by symbolic count")
		}
		n := asInt64(y)
		if n < 0 {
			panic(targetPanic{"negative shift amount"})
		}
		if n >= int64(bits) {
			n = int64(bits)
		}
		p := c.IntBig(pow2big(int(n)))
		a := i.term(x)
		if op == token.SHL {
			return i.mkSym(i.wrapInt(c.IntN("*", a, p), kx), kx)
		}
		return i.mkSym(c.IntN("div", a, p), kx) // floor division == arithmetic shift
	}
	a := i.term(x)
	cnt := i.term(y)
	if csigned {
		i.ex.requireNot(c.BVCmp("bvslt", cnt, c.BVC(cb, 0)), "negative shift amount")
	}
	// bring the count to the operand width, saturating
	switch {
	case cb < bits:
		cnt = c.ZeroExt(cnt, bits)
	case cb > bits:
		big := c.BVCmp("bvule", c.BVC(cb, uint64(bits)), cnt)
		cnt = c.Ite(big, c.BVC(bits, uint64(bits)), c.Extract(cnt, bits-1, 0))
	}
	switch {
	case op == token.SHL:
		return i.mkSym(c.BV2("bvshl", a, cnt), kx)
	case signed:
		return i.mkSym(c.BV2("bvashr", a, cnt), kx)
	default:
		return i.mkSym(c.BV2("bvlshr", a, cnt), kx)
	}
}

func (i *interpreter) symUnop(op token.Token, x sym) value {
	c := i.ex.Ctx
	switch op {
	case token.NOT:
		return i.mkSym(c.Not(x.t), types.Bool)
	case token.SUB:
		if x.k == types.Float64 {
			return i.mkSym(c.FP1("fp.neg", x.t), x.k)
		}
		if i.ex.IntMode {
			return i.mkSym(i.wrapInt(c.IntNeg(x.t), x.k), x.k)
		}
		return i.mkSym(c.BVNeg(x.t), x.k)
	case token.XOR:
		if i.ex.IntMode {
			_, signed, _ := kindInfo(x.k)
			if signed {
				return i.mkSym(c.IntN("-", c.IntNeg(x.t), c.IntC(1)), x.k)
			}
			bits, _, _ := kindInfo(x.k)
			return i.mkSym(c.IntN("-", c.IntBig(new(big.Int).Sub(pow2big(bits), big.NewInt(1))), x.t), x.k)
		}
		return i.mkSym(c.BVNot(x.t), x.k)
	}
	unsupported("unop %s on symbolic %v", op, x.k)
	return nil
}

// symConv converts a symbolic scalar to the destination basic kind.
func (i *interpreter) symConv(dst types.BasicKind, x sym) value {
	c := i.ex.Ctx
	if dst == x.k {
		return x
	}
	sb, ssigned, sInt := kindInfo(x.k)
	db, dsigned, dInt := kindInfo(dst)
	switch {
	case sInt && dInt:
		if i.ex.IntMode {
			return i.mkSym(i.wrapInt(x.t, dst), dst)
		}
		switch {
		case db == sb:
			return i.mkSym(x.t, dst)
		case db < sb:
			return i.mkSym(c.Extract(x.t, db-1, 0), dst)
		case ssigned:
			return i.mkSym(c.SignExt(x.t, db), dst)
		default:
			return i.mkSym(c.ZeroExt(x.t, db), dst)
		}
	case sInt && dst == types.Float64:
		if i.ex.IntMode {
			// mathematical integer (already reduced to the kind's range) ->
			// 64-bit two's complement -> IEEE double
			return i.mkSym(c.FPFromBV(c.IntToBV64(x.t), ssigned), dst)
		}
		return i.mkSym(c.FPFromBV(x.t, ssigned), dst)
	case x.k == types.Float64 && dInt:
		if i.ex.IntMode {
			unsupported("int-mode float->int conversion")
		}
		return i.mkSym(i.fpToInt(x.t, db, dsigned), dst)
	case x.k == types.Float64 && dst == types.Float64:
		return x
	}
	unsupported("conversion %v -> %v of symbolic value", x.k, dst)
	return nil
}

// fpToInt encodes Go's float64->integer conversion as compiled for amd64:
// CVTTSD2SQ yields the "integer indefinite" 0x8000000000000000 for NaN and
// out-of-range inputs; narrower results are truncations of the 64-bit one;
// uint64 uses the compiler's two-range sequence.
func (i *interpreter) fpToInt(f *smt.Term, bits int, signed bool) *smt.Term {
	c := i.ex.Ctx
	two63 := c.FPC(9223372036854775808.0)
	ntwo63 := c.FPC(-9223372036854775808.0)
	indef := c.BVC(64, 1<<63)
	cvt := func(g *smt.Term) *smt.Term {
		in := c.And(c.FPCmp("fp.geq", g, ntwo63), c.FPCmp("fp.lt", g, two63))
		return c.Ite(in, c.FPToBV(g, 64, true), indef)
	}
	var r *smt.Term
	if !signed && bits == 64 {
		lo := cvt(f)
		hi := c.BV2("bvxor", cvt(c.FP2("fp.sub", f, two63)), indef)
		r = c.Ite(c.FPCmp("fp.lt", f, two63), lo, c.Ite(c.FPIsNaN(f), indef, hi))
	} else {
		r = cvt(f)
	}
	if bits < 64 {
		r = c.Extract(r, bits-1, 0)
	}
	return r
}

// eqValue computes x == y for values of static type t; the result is a Go bool
// when it can be decided concretely and a symbolic bool otherwise.
func eqValue(i *interpreter, t types.Type, x, y value) value {
	c := i.ex.Ctx
	switch x := x.(type) {
	case sym:
		return i.symBinop(token.EQL, x, y)
	case structure:
		ys := y.(structure)
		st := t.Underlying().(*types.Struct)
		acc := c.BoolC(true)
		for k := range x {
			if st.Field(k).Name() == "_" {
				continue
			}
			r := eqValue(i, st.Field(k).Type(), x[k], ys[k])
			if b, ok := r.(bool); ok {
				if !b {
					return false
				}
				continue
			}
			acc = c.And(acc, r.(sym).t)
		}
		return i.mkSym(acc, types.Bool)
	case array:
		ya := y.(array)
		et := t.Underlying().(*types.Array).Elem()
		acc := c.BoolC(true)
		for k := range x {
			r := eqValue(i, et, x[k], ya[k])
			if b, ok := r.(bool); ok {
				if !b {
					return false
				}
				continue
			}
			acc = c.And(acc, r.(sym).t)
		}
		return i.mkSym(acc, types.Bool)
	case iface:
		yi := y.(iface)
		if x.t == nil || yi.t == nil {
			return x.t == nil && yi.t == nil
		}
		if !types.Identical(x.t, yi.t) {
			return false
		}
		return eqValue(i, x.t, x.v, yi.v)
	case string:
		switch y := y.(type) {
		case string:
			return x == y
		case symstr, tagstr:
			return strEq(i, x, y)
		}
	case symstr, tagstr:
		return strEq(i, x, y)
	}
	if isSym(y) {
		return i.symBinop(token.EQL, x, y)
	}
	return equals(t, x, y)
}

// truth decides a (possibly symbolic) boolean by forking the path.
func (i *interpreter) truth(v value) bool {
	switch v := v.(type) {
	case bool:
		return v
	case sym:
		return i.ex.Branch(v.t)
	}
	panic(fmt.Sprintf("truth of %T", v))
}
