// Copyright 2013 The Go Authors. All rights reserved.
// Use of this source code is governed by a BSD-style
// license that can be found in the LICENSE file.

// Package ssa/interp defines an interpreter for the SSA
// representation of Go programs.
//
// This interpreter is provided as an adjunct for testing the SSA
// construction algorithm.  Its purpose is to provide a minimal
// metacircular implementation of the dynamic semantics of each SSA
// instruction.  It is not, and will never be, a production-quality Go
// interpreter.
//
// The following is a partial list of Go features that are currently
// unsupported or incomplete in the interpreter.
//
// * Unsafe operations, including all uses of unsafe.Pointer, are
// impossible to support given the "boxed" value representation we
// have chosen.
//
// * The reflect package is only partially implemented.
//
// * The "testing" package is no longer supported because it
// depends on low-level details that change too often.
//
// * "sync/atomic" operations are not atomic due to the "boxed" value
// representation: it is not possible to read, modify and write an
// interface value atomically. As a consequence, Mutexes are currently
// broken.
//
// * recover is only partially implemented.  Also, the interpreter
// makes no attempt to distinguish target panics from interpreter
// crashes.
//
// * the sizes of the int, uint and uintptr types in the target
// program are assumed to be the same as those of the interpreter
// itself.
//
// * all values occupy space, even those of types defined by the spec
// to have zero size, e.g. struct{}.  This can cause asymptotic
// performance degradation.
//
// * os.Exit is implemented using panic, causing deferred functions to
// run.
package symgo // import "golang.org/x/tools/go/ssa/interp"

import (
	"fmt"
	"go/token"
	"go/types"
	"os"
	"runtime"
	"slices"
	"strings"

	"golang.org/x/tools/go/ssa"
)

type continuation int

const (
	kNext continuation = iota
	kReturn
	kJump
)

// Mode is a bitmask of options affecting the interpreter.
type Mode uint

const (
	DisableRecover Mode = 1 << iota // Disable recover() in target programs; show interpreter crash instead.
	EnableTracing                   // Print a trace of all instructions as they are interpreted.
)

type methodSet map[string]*ssa.Function

// State shared between all interpreted goroutines.
type interpreter struct {
	osArgs             []value                // the value of os.Args
	prog               *ssa.Program           // the SSA program
	globals            map[*ssa.Global]*value // addresses of global variables (immutable)
	mode               Mode                   // interpreter options
	reflectPackage     *ssa.Package           // the fake reflect package
	errorMethods       methodSet              // the method set of reflect.error, which implements the error interface.
	rtypeMethods       methodSet              // the method set of rtype, which implements the reflect.Type interface.
	runtimeErrorString types.Type             // the runtime.errorString type
	sizes              types.Sizes            // the effective type-sizing function
	goroutines         int32                  // atomically updated

	ex        *Explorer
	stubs     map[string]value     // per-harness models registered with verif_stub
	initState map[*ssa.Package]int // 0 = not run, 1 = running, 2 = done, 3 = aborted
	conc      concHandler          // concurrency semantics (sequential or thread-tree extraction)
	curFrame  *frame
	nextChan  int
	harnessPk *ssa.Package
	ghost     map[string]value
	syncSt    *syncState
	knownOpen map[string]bool
	tree      *treeConc
	allocs    []*value
	// memory budget of "memory proportional to the input" harnesses: elements
	// allocated by make() since verif_alloc_limit was called
	allocLimit, allocUsed int64
	slices                [][]value
}

type deferred struct {
	fn    value
	args  []value
	instr *ssa.Defer
	tail  *deferred
}

type frame struct {
	i                *interpreter
	caller           *frame
	fn               *ssa.Function
	block, prevBlock *ssa.BasicBlock
	env              map[ssa.Value]value // dynamic values of SSA variables
	locals           []value
	defers           *deferred
	result           value
	panicking        bool
	panic            interface{}
	phitemps         []value // temporaries for parallel phi assignment
	pos              token.Pos
	skipPhis         bool
	tolerant         bool // package initialiser: failing statements poison their result
}

func (fr *frame) get(key ssa.Value) value {
	switch key := key.(type) {
	case nil:
		// Hack; simplifies handling of optional attributes
		// such as ssa.Slice.{Low,High}.
		return nil
	case *ssa.Function, *ssa.Builtin:
		return key
	case *ssa.Const:
		return constValue(key)
	case *ssa.Global:
		fr.i.ensureInit(key.Pkg, fr)
		if fr.i.initState[key.Pkg] == 4 && !zeroInitOK[key.Pkg.Pkg.Path()] && !zeroGlobalOK[key.String()] {
			unsupported("global %s of a package whose initialiser is not run", key)
		}
		return fr.i.global(key)
	}
	if r, ok := fr.env[key]; ok {
		return r
	}
	panic(fmt.Sprintf("get: no value for %T: %v", key, key.Name()))
}

// runDefer runs a deferred call d.
// It always returns normally, but may set or clear fr.panic.
func (fr *frame) runDefer(d *deferred) {
	if fr.i.mode&EnableTracing != 0 {
		fmt.Fprintf(os.Stderr, "%s: invoking deferred function call\n",
			fr.i.prog.Fset.Position(d.instr.Pos()))
	}
	var ok bool
	defer func() {
		if !ok {
			// Deferred call created a new state of panic.
			fr.panicking = true
			fr.panic = recover()
		}
	}()
	call(fr.i, fr, d.instr.Pos(), d.fn, d.args)
	ok = true
}

// runDefers executes fr's deferred function calls in LIFO order.
//
// On entry, fr.panicking indicates a state of panic; if
// true, fr.panic contains the panic value.
//
// On completion, if a deferred call started a panic, or if no
// deferred call recovered from a previous state of panic, then
// runDefers itself panics after the last deferred call has run.
//
// If there was no initial state of panic, or it was recovered from,
// runDefers returns normally.
func (fr *frame) runDefers() {
	for d := fr.defers; d != nil; d = d.tail {
		fr.runDefer(d)
	}
	fr.defers = nil
	if fr.panicking {
		panic(fr.panic) // new panic, or still panicking
	}
}

// lookupMethod returns the method implementation for a dynamic type.
func lookupMethod(i *interpreter, typ types.Type, meth *types.Func) *ssa.Function {
	return i.prog.LookupMethod(typ, meth.Pkg(), meth.Name())
}

// visitInstr interprets a single ssa.Instruction within the activation
// record frame.  It returns a continuation value indicating where to
// read the next instruction from.
func visitInstr(fr *frame, instr ssa.Instruction) continuation {
	i := fr.i
	switch instr := instr.(type) {
	case *ssa.DebugRef:
		// no-op

	case *ssa.UnOp:
		fr.env[instr] = unop(fr, instr, fr.get(instr.X))

	case *ssa.BinOp:
		fr.env[instr] = binop(i, instr.Op, instr.X.Type(), fr.get(instr.X), fr.get(instr.Y))

	case *ssa.Call:
		fn, args := prepareCall(fr, &instr.Call)
		fr.env[instr] = call(fr.i, fr, instr.Pos(), fn, args)

	case *ssa.ChangeInterface:
		fr.env[instr] = fr.get(instr.X)

	case *ssa.ChangeType:
		fr.env[instr] = fr.get(instr.X) // (can't fail)

	case *ssa.Convert:
		fr.env[instr] = conv(i, instr.Type(), instr.X.Type(), fr.get(instr.X))

	case *ssa.SliceToArrayPointer:
		fr.env[instr] = sliceToArrayPointer(instr.Type(), instr.X.Type(), fr.get(instr.X))

	case *ssa.MakeInterface:
		fr.env[instr] = iface{t: instr.X.Type(), v: fr.get(instr.X)}

	case *ssa.Extract:
		fr.env[instr] = fr.get(instr.Tuple).(tuple)[instr.Index]

	case *ssa.Slice:
		var elemT types.Type
		if st, ok := instr.Type().Underlying().(*types.Slice); ok {
			elemT = st.Elem()
		}
		fr.env[instr] = slice(i, fr.get(instr.X), fr.get(instr.Low), fr.get(instr.High), fr.get(instr.Max), elemT)

	case *ssa.Return:
		switch len(instr.Results) {
		case 0:
		case 1:
			fr.result = fr.get(instr.Results[0])
		default:
			var res []value
			for _, r := range instr.Results {
				res = append(res, fr.get(r))
			}
			fr.result = tuple(res)
		}
		fr.block = nil
		return kReturn

	case *ssa.RunDefers:
		fr.runDefers()

	case *ssa.Panic:
		panic(targetPanic{fr.get(instr.X)})

	case *ssa.Send:
		i.conc.send(fr, fr.get(instr.Chan).(*channel), fr.get(instr.X))

	case *ssa.Store:
		storeAddr(i, mustDeref(instr.Addr.Type()), fr.get(instr.Addr), fr.get(instr.Val))

	case *ssa.If:
		succ := 1
		switch c := fr.get(instr.Cond).(type) {
		case bool:
			if c {
				succ = 0
			}
		case sym:
			if fr.tryMerge(c) {
				return kJump
			}
			i.ex.site(fr, fr.block.Index)
			if i.ex.Branch(c.t) {
				succ = 0
			}
		default:
			panic(fmt.Sprintf("if on %T", c))
		}
		fr.prevBlock, fr.block = fr.block, fr.block.Succs[succ]
		return kJump

	case *ssa.Jump:
		fr.prevBlock, fr.block = fr.block, fr.block.Succs[0]
		return kJump

	case *ssa.Defer:
		fn, args := prepareCall(fr, &instr.Call)
		defers := &fr.defers
		if into := fr.get(instr.DeferStack); into != nil {
			defers = into.(**deferred)
		}
		*defers = &deferred{
			fn:    fn,
			args:  args,
			instr: instr,
			tail:  *defers,
		}

	case *ssa.Go:
		fn, args := prepareCall(fr, &instr.Call)
		i.conc.spawn(fr, instr, fn, args)

	case *ssa.MakeChan:
		i.nextChan++
		fr.env[instr] = &channel{id: i.nextChan, cap: int(asInt64(i.concretize(fr.get(instr.Size), 0, 8, "chan size"))),
			elemT: instr.Type().Underlying().(*types.Chan).Elem(), pos: instr.Pos()}

	case *ssa.Alloc:
		var addr *value
		if instr.Heap {
			// new
			addr = new(value)
			fr.env[instr] = addr
			if i.tree != nil {
				i.allocs = append(i.allocs, addr)
			}
		} else {
			// local
			addr = fr.env[instr].(*value)
		}
		if at, ok := mustDeref(instr.Type()).Underlying().(*types.Array); ok && i.allocLimit > 0 {
			// make([]T, constant) is an array allocation in SSA form
			i.allocUsed += at.Len()
			if i.allocUsed > i.allocLimit {
				panic(targetPanic{fmt.Sprintf("memory budget exceeded: allocation of %d elements, %d allocated in total, budget %d (memory not proportional to the input)", at.Len(), i.allocUsed, i.allocLimit)})
			}
		}
		*addr = zero(mustDeref(instr.Type()))

	case *ssa.MakeSlice:
		capv := i.concretize(fr.get(instr.Cap), 0, 64, "make cap")
		lenv := i.concretize(fr.get(instr.Len), 0, 64, "make len")
		cp, ln := asInt64(capv), asInt64(lenv)
		if ln < 0 || cp < ln {
			panic(targetPanic{"makeslice: len out of range"})
		}
		if i.allocLimit > 0 {
			i.allocUsed += cp
			if i.allocUsed > i.allocLimit {
				panic(targetPanic{fmt.Sprintf("memory budget exceeded: make of %d elements, %d allocated in total, budget %d (memory not proportional to the input)", cp, i.allocUsed, i.allocLimit)})
			}
		}
		if cp > 1<<24 {
			unsupported("make of %d elements", cp)
		}
		slice := make([]value, cp)
		tElt := instr.Type().Underlying().(*types.Slice).Elem()
		for i := range slice {
			slice[i] = zero(tElt)
		}
		if i.tree != nil && cp > 0 && cp <= 4096 {
			i.slices = append(i.slices, slice)
		}
		fr.env[instr] = slice[:ln]

	case *ssa.MakeMap:
		fr.env[instr] = makeMap(instr.Type().Underlying().(*types.Map).Key(), 0)

	case *ssa.Range:
		fr.env[instr] = rangeIter(i, fr.get(instr.X), instr.X.Type())

	case *ssa.Next:
		fr.env[instr] = fr.get(instr.Iter).(iter).next()

	case *ssa.FieldAddr:
		p := fr.get(instr.X).(*value)
		if p == nil {
			panic(targetPanic{"invalid memory address or nil pointer dereference"})
		}
		fr.env[instr] = &(*p).(structure)[instr.Field]

	case *ssa.Field:
		fr.env[instr] = fr.get(instr.X).(structure)[instr.Field]

	case *ssa.IndexAddr:
		x := fr.get(instr.X)
		idx := fr.get(instr.Index)
		switch x := x.(type) {
		case []value:
			if s, ok := idx.(sym); ok {
				if p, ok := i.tablePtr(x, s); ok {
					fr.env[instr] = p
					break
				}
			}
			fr.env[instr] = &x[i.index(idx, len(x))]
		case *value: // *array
			if x == nil {
				panic(targetPanic{"invalid memory address or nil pointer dereference"})
			}
			a := (*x).(array)
			if s, ok := idx.(sym); ok {
				if p, ok := i.tablePtr(a, s); ok {
					fr.env[instr] = p
					break
				}
			}
			fr.env[instr] = &a[i.index(idx, len(a))]
		default:
			panic(fmt.Sprintf("unexpected x type in IndexAddr: %T", x))
		}

	case *ssa.Index:
		x := fr.get(instr.X)
		idx := fr.get(instr.Index)

		switch x := x.(type) {
		case array:
			if s, ok := idx.(sym); ok {
				if p, ok := i.tablePtr(x, s); ok {
					fr.env[instr] = p.load(i)
					break
				}
			}
			fr.env[instr] = x[i.index(idx, len(x))]
		case string:
			if s, ok := idx.(sym); ok {
				fr.env[instr] = strIndex(i, x, s)
				break
			}
			fr.env[instr] = x[i.index(idx, len(x))]
		case symstr:
			fr.env[instr] = strIndex(i, x, idx)
		default:
			panic(fmt.Sprintf("unexpected x type in Index: %T", x))
		}

	case *ssa.Lookup:
		fr.env[instr] = lookup(i, instr, fr.get(instr.X), fr.get(instr.Index))

	case *ssa.MapUpdate:
		m := fr.get(instr.Map).(*omap)
		m.insert(i, fr.get(instr.Key), fr.get(instr.Value))

	case *ssa.TypeAssert:
		fr.env[instr] = typeAssert(fr.i, instr, fr.get(instr.X).(iface))

	case *ssa.MakeClosure:
		var bindings []value
		for _, binding := range instr.Bindings {
			bindings = append(bindings, fr.get(binding))
		}
		fr.env[instr] = &closure{instr.Fn.(*ssa.Function), bindings}

	case *ssa.Phi:
		panic("unreachable") // phis are processed at block entry

	case *ssa.Select:
		fr.env[instr] = i.conc.sel(fr, instr)

	default:
		panic(fmt.Sprintf("unexpected instruction: %T", instr))
	}

	return kNext
}

// prepareCall determines the function value and argument values for a
// function call in a Call, Go or Defer instruction, performing
// interface method lookup if needed.
func prepareCall(fr *frame, call *ssa.CallCommon) (fn value, args []value) {
	v := fr.get(call.Value)
	if call.Method == nil {
		// Function call.
		fn = v
	} else {
		// Interface method invocation.
		recv := v.(iface)
		if recv.t == nil {
			panic(targetPanic{"invalid memory address or nil pointer dereference (method call on nil interface)"})
		}
		if f := lookupMethod(fr.i, recv.t, call.Method); f == nil {
			// Unreachable in well-typed programs.
			panic(fmt.Sprintf("method set for dynamic type %v does not contain %s", recv.t, call.Method))
		} else {
			fn = f
		}
		args = append(args, recv.v)
	}
	for _, arg := range call.Args {
		args = append(args, fr.get(arg))
	}
	return
}

// call interprets a call to a function (function, builtin or closure)
// fn with arguments args, returning its result.
// callpos is the position of the callsite.
func call(i *interpreter, caller *frame, callpos token.Pos, fn value, args []value) value {
	switch fn := fn.(type) {
	case *ssa.Function:
		if fn == nil {
			panic(targetPanic{"invalid memory address or nil pointer dereference (call of nil func)"})
		}
		return callSSA(i, caller, callpos, fn, args, nil)
	case *closure:
		return callSSA(i, caller, callpos, fn.Fn, args, fn.Env)
	case *ssa.Builtin:
		return callBuiltin(caller, callpos, fn, args)
	case *nativeFn:
		return fn.f(caller, args)
	}
	panic(fmt.Sprintf("cannot call %T", fn))
}

// nativeFn is an engine-provided function value usable where target code
// expects a func value.
type nativeFn struct {
	name string
	f    func(fr *frame, args []value) value
}

func loc(fset *token.FileSet, pos token.Pos) string {
	if pos == token.NoPos {
		return ""
	}
	return " at " + fset.Position(pos).String()
}

var neverInit = map[string]bool{"runtime": true, "unsafe": true, "sync": true, "sync/atomic": true,
	"syscall": true, "os": true, "reflect": true, "testing": true, "os/signal": true, "net": true,
	"crypto/tls": true, "crypto/x509": true, "log": true, "flag": true,
	"encoding/gob": true, "encoding/json": true, "math/rand": true, "math/rand/v2": true,
	"crypto/rand": true, "os/exec": true, "os/user": true, "vendor/golang.org/x/net/http2/hpack": true,
	"golang.org/x/net/http2": true, "golang.org/x/net/http2/hpack": true}

// packages whose globals are meaningful when zero-initialised (locks, pools,
// counters) even though their initialiser is never run
var zeroInitOK = map[string]bool{"sync": true, "sync/atomic": true, "runtime": true, "internal/godebug": true,
	"internal/race": true, "internal/bytealg": true, "internal/cpu": true}

// individual globals of uninitialised packages that harnesses may pass around
// as opaque zero values (they only reach stubbed functions)
var zeroGlobalOK = map[string]bool{"net.DefaultResolver": true, "github.com/prometheus/client_golang/prometheus.DefBuckets": true, "os.Interrupt": true, "os.Stdin": true, "os.Stdout": true, "os.Stderr": true}

func skipInit(path string) bool {
	return neverInit[path] || strings.HasPrefix(path, "internal/") || strings.HasPrefix(path, "runtime/") ||
		strings.HasPrefix(path, "crypto/") || strings.HasPrefix(path, "vendor/golang.org/x/crypto") ||
		strings.HasPrefix(path, "github.com/prometheus/") || strings.HasPrefix(path, "google.golang.org/")
}

// ensureInit lazily and tolerantly runs the package initialiser of p the
// first time one of its functions or globals is touched.
func (i *interpreter) ensureInit(p *ssa.Package, caller *frame) {
	if p == nil || i.initState[p] != 0 {
		return
	}
	if skipInit(p.Pkg.Path()) {
		i.initState[p] = 4 // never run: its globals must not be read
		return
	}
	i.initState[p] = 1
	initFn := p.Func("init")
	if initFn == nil {
		i.initState[p] = 2
		return
	}
	if initFn.Blocks == nil {
		p.Build()
	}
	func() {
		defer func() {
			if e := recover(); e != nil {
				if a, ok := e.(abortPath); ok && a.kind != abortUnsupported {
					panic(e)
				}
				i.initState[p] = 3
				if os.Getenv("VERIF_DEBUG") != "" {
					fmt.Fprintf(os.Stderr, "init of %s aborted: %v\n", p.Pkg.Path(), e)
				}
			}
		}()
		callSSA(i, nil, token.NoPos, initFn, nil, nil)
	}()
	if i.initState[p] == 1 {
		i.initState[p] = 2
	}
}

// callSSA interprets a call to function fn with arguments args,
// and lexical environment env, returning its result.
// callpos is the position of the callsite.
func callSSA(i *interpreter, caller *frame, callpos token.Pos, fn *ssa.Function, args []value, env []value) value {
	fr := &frame{
		i:      i,
		caller: caller, // for panic/recover
		fn:     fn,
	}
	if fn.Parent() == nil {
		name := fn.String()
		if m, ok := i.stubs[name]; ok {
			i.ex.Stubbed[name] = true
			return call(i, caller, callpos, m, args)
		}
		if strings.HasPrefix(fn.Name(), "verif_") && fn.Blocks == nil {
			if in := intrinsics[fn.Name()]; in != nil {
				return in(fr, args)
			}
			unsupported("unknown intrinsic %s", fn.Name())
		}
		if ext := externals[name]; ext != nil {
			fr.caller = caller
			if r, ok := ext(fr, args); ok {
				i.ex.Stubbed[name] = true
				return r
			}
		}
		if fn.Pkg != nil && fn.Pkg.Pkg.Path() == "time" && mentionsTime(fn.Signature) {
			unsupported("time.%s is not covered by the abstract time model", fn.Name())
		}
		if fn.Pkg != nil && fn.Name() == "init" && fn.Signature.Recv() == nil && caller != nil && caller.fn.Name() == "init" && fn.Synthetic == "package initializer" {
			// dependency initialisers are run lazily, not eagerly
			return nil
		}
		if fn.Blocks == nil && fn.Pkg != nil {
			fn.Pkg.Build()
		}
		if fn.Blocks == nil {
			unsupported("no code for function %s", name)
		}
	}
	if fn.Pkg != nil && !(fn.Name() == "init" && fn.Synthetic == "package initializer") {
		i.ensureInit(fn.Pkg, caller)
		if i.initState[fn.Pkg] == 3 && fn.Pkg != i.harnessPk {
			// functions of a partially initialised package may read zeroed globals
			i.ex.inconclusiveNote("partial-init", fn.Pkg.Pkg.Path())
		}
	}
	if fn.Synthetic == "" || strings.HasPrefix(fn.Synthetic, "bound method") || strings.HasPrefix(fn.Synthetic, "wrapper") {
		if fn.Pkg != nil || fn.Parent() != nil {
			i.ex.Covered[fn.String()] = true
		}
	}

	// generic function body?
	if fn.TypeParams().Len() > 0 && len(fn.TypeArgs()) == 0 {
		panic("interp requires ssa.BuilderMode to include InstantiateGenerics to execute generics")
	}
	depth := 0
	for f := caller; f != nil; f = f.caller {
		depth++
	}
	if depth > 400 {
		panic(abortPath{abortUnwind, "call depth > 400 in " + fn.String()})
	}

	fr.tolerant = fn.Synthetic == "package initializer"
	fr.env = make(map[ssa.Value]value)
	fr.block = fn.Blocks[0]
	fr.locals = make([]value, len(fn.Locals))
	for i, l := range fn.Locals {
		fr.locals[i] = zero(mustDeref(l.Type()))
		fr.env[l] = &fr.locals[i]
	}
	for i, p := range fn.Params {
		fr.env[p] = args[i]
	}
	for i, fv := range fn.FreeVars {
		fr.env[fv] = env[i]
	}
	for fr.block != nil {
		runFrame(fr)
	}
	return fr.result
}

type poison struct{ why string }

// runFrame executes SSA instructions starting at fr.block and
// continuing until a return, a panic, or a recovered panic.
func runFrame(fr *frame) {
	defer func() {
		if fr.block == nil {
			return // normal return
		}
		p := recover()
		if _, ok := p.(abortPath); ok {
			panic(p) // engine aborts are not visible to the target program
		}
		if !isTargetPanic(p) {
			panic(p)
		}
		fr.panicking = true
		fr.panic = p
		fr.runDefers()
		fr.block = fr.fn.Recover
	}()

	for {
		nonPhis := executePhis(fr)
		for _, instr := range nonPhis {
			fr.i.ex.steps++
			if fr.i.ex.steps > fr.i.ex.Budget {
				panic(abortPath{abortBudget, "instruction budget exceeded"})
			}
			fr.i.curFrame = fr
			var k continuation
			if fr.tolerant {
				k = tolerantVisit(fr, instr)
			} else {
				fr.pos = instr.Pos()
				k = visitInstr(fr, instr)
			}
			if k == kReturn {
				return
			}
			// Inv: kNext (continue) or kJump (last instr)
		}
	}
}

func tolerantVisit(fr *frame, instr ssa.Instruction) (k continuation) {
	defer func() {
		if e := recover(); e != nil {
			if a, ok := e.(abortPath); ok && a.kind != abortUnsupported {
				panic(e)
			}
			switch instr.(type) {
			case *ssa.If, *ssa.Jump, *ssa.Return, *ssa.Panic:
				panic(e) // cannot skip control flow: abort this initialiser
			}
			if v, ok := instr.(ssa.Value); ok {
				fr.env[v] = poison{fmt.Sprint(e)}
			}
			if os.Getenv("VERIF_DEBUG") != "" {
				fmt.Fprintf(os.Stderr, "init-skip %s: %v: %.120v\n", fr.fn, instr, e)
			}
			k = kNext
		}
	}()
	return visitInstr(fr, instr)
}

// isTargetPanic reports whether a Go panic value raised inside the engine
// models a panic of the interpreted program (as opposed to an engine failure).
func isTargetPanic(p interface{}) bool {
	switch p := p.(type) {
	case targetPanic:
		return true
	case runtime.Error:
		msg := p.Error()
		if _, ok := p.(*runtime.TypeAssertionError); ok {
			return false
		}
		return strings.Contains(msg, "index out of range") || strings.Contains(msg, "slice bounds out of range") ||
			strings.Contains(msg, "integer divide by zero") || strings.Contains(msg, "nil map")
	}
	return false
}

// executePhis executes the phi-nodes at the start of the current
// block and returns the non-phi instructions.
func executePhis(fr *frame) []ssa.Instruction {
	firstNonPhi := -1
	for i, instr := range fr.block.Instrs {
		if _, ok := instr.(*ssa.Phi); !ok {
			firstNonPhi = i
			break
		}
	}
	// Inv: 0 <= firstNonPhi; every block contains a non-phi.

	nonPhis := fr.block.Instrs[firstNonPhi:]
	if fr.skipPhis {
		fr.skipPhis = false
		return nonPhis
	}
	if firstNonPhi > 0 {
		phis := fr.block.Instrs[:firstNonPhi]
		predIndex := slices.Index(fr.block.Preds, fr.prevBlock)
		fr.phitemps = fr.phitemps[:0]
		for _, phi := range phis {
			phi := phi.(*ssa.Phi)
			fr.phitemps = append(fr.phitemps, fr.get(phi.Edges[predIndex]))
		}
		for i, phi := range phis {
			fr.env[phi.(*ssa.Phi)] = fr.phitemps[i]
		}
	}
	return nonPhis
}

// doRecover implements the recover() built-in.
func doRecover(caller *frame) value {
	// recover() must be exactly one level beneath the deferred
	// function (two levels beneath the panicking function) to
	// have any effect.  Thus we ignore both "defer recover()" and
	// "defer f() -> g() -> recover()".
	if caller != nil && !caller.panicking &&
		caller.caller != nil && caller.caller.panicking {
		caller.caller.panicking = false
		p := caller.caller.panic
		caller.caller.panic = nil

		switch p := p.(type) {
		case targetPanic:
			// The target program explicitly called panic().
			if s, ok := p.v.(string); ok {
				return iface{caller.i.runtimeErrorString, s}
			}
			return p.v
		case runtime.Error:
			// The interpreter encountered a runtime error.
			return iface{caller.i.runtimeErrorString, p.Error()}
		case string:
			// The interpreter explicitly called panic().
			return iface{caller.i.runtimeErrorString, p}
		default:
			panic(fmt.Sprintf("unexpected panic type %T in target call to recover()", p))
		}
	}
	return iface{}
}

// mentionsTime reports whether a signature of package time involves time.Time
// (whose representation is replaced by the abstract-instant model).
func mentionsTime(sig *types.Signature) bool {
	isTime := func(t types.Type) bool {
		if p, ok := t.(*types.Pointer); ok {
			t = p.Elem()
		}
		n, ok := t.(*types.Named)
		return ok && n.Obj().Name() == "Time" && n.Obj().Pkg() != nil && n.Obj().Pkg().Path() == "time"
	}
	if r := sig.Recv(); r != nil && isTime(r.Type()) {
		return true
	}
	for k := 0; k < sig.Params().Len(); k++ {
		if isTime(sig.Params().At(k).Type()) {
			return true
		}
	}
	for k := 0; k < sig.Results().Len(); k++ {
		if isTime(sig.Results().At(k).Type()) {
			return true
		}
	}
	return false
}
