package symgo

import (
	"fmt"
	"go/types"
)

// verif_fill / verif_deep_equal: type-directed helpers for "every field of
// this type survives the round trip" harnesses. They enumerate the fields of
// the real type from go/types on every run, so a field the type gains later is
// covered without touching the harness.

func isTimeType(t types.Type) bool {
	n, ok := t.(*types.Named)
	return ok && n.Obj().Pkg() != nil && n.Obj().Pkg().Path() == "time" && n.Obj().Name() == "Time"
}

// fillValue returns a non-zero value of type t that differs for different
// (seed, path) pairs; ok is false for types it does not know how to build.
func fillValue(i *interpreter, t types.Type, seed int, path string, idx *int) (value, bool) {
	*idx++
	k := int64(seed*50 + *idx)
	if isTimeType(t) {
		return absTime(int64(1600000000000000000) + k*1000000007), true
	}
	switch u := t.Underlying().(type) {
	case *types.Basic:
		switch u.Kind() {
		case types.Bool:
			return true, true
		case types.String:
			return fmt.Sprintf("v%d-%s", seed, path), true
		case types.Float32:
			return float32(k) + 0.5, true
		case types.Float64:
			return float64(k) + 0.25, true
		}
		if _, _, isInt := kindInfo(u.Kind()); isInt {
			return concreteOfKind(u.Kind(), uint64(k)), true
		}
	case *types.Struct:
		s := make(structure, u.NumFields())
		for f := 0; f < u.NumFields(); f++ {
			v, ok := fillValue(i, u.Field(f).Type(), seed, path+"."+u.Field(f).Name(), idx)
			if !ok {
				v = zero(u.Field(f).Type())
			}
			s[f] = v
		}
		return s, true
	case *types.Slice:
		if b, ok := u.Elem().Underlying().(*types.Basic); ok && b.Kind() == types.Uint8 {
			txt := fmt.Sprintf("b%d-%s", seed, path)
			out := make([]value, len(txt))
			for j := range out {
				out[j] = uint8(txt[j])
			}
			return out, true
		}
		if e, ok := fillValue(i, u.Elem(), seed, path+"[0]", idx); ok {
			return []value{e}, true
		}
	case *types.Map:
		kv, ok1 := fillValue(i, u.Key(), seed, "K"+path, idx)
		ev, ok2 := fillValue(i, u.Elem(), seed, path+"[k]", idx)
		if ok1 && ok2 {
			if _, isStr := kv.(string); isStr {
				kv = fmt.Sprintf("X-K%d", k) // canonical as a header key, should the map be an http.Header
			}
			m := makeMap(u.Key(), 1).(*omap)
			m.insert(i, kv, ev)
			return m, true
		}
	}
	return nil, false
}

// deepEqual compares two values of static type t structurally; nil and empty
// slices/maps are the same, time.Time values compare by instant.
func deepEqual(i *interpreter, t types.Type, a, b value) bool {
	if isTimeType(t) {
		za, na := timeParts(a)
		zb, nb := timeParts(b)
		if za || zb {
			return za == zb
		}
		return i.truth(i.arith2eq(na, nb))
	}
	switch u := t.Underlying().(type) {
	case *types.Struct:
		sa, sb := a.(structure), b.(structure)
		for f := 0; f < u.NumFields(); f++ {
			if !deepEqual(i, u.Field(f).Type(), sa[f], sb[f]) {
				return false
			}
		}
		return true
	case *types.Array:
		aa, ab := a.(array), b.(array)
		for k := range aa {
			if !deepEqual(i, u.Elem(), aa[k], ab[k]) {
				return false
			}
		}
		return true
	case *types.Slice:
		xa, _ := a.([]value)
		xb, _ := b.([]value)
		if len(xa) != len(xb) {
			return false
		}
		for k := range xa {
			if !deepEqual(i, u.Elem(), xa[k], xb[k]) {
				return false
			}
		}
		return true
	case *types.Map:
		ma, _ := a.(*omap)
		mb, _ := b.(*omap)
		la, lb := 0, 0
		if ma != nil {
			la = ma.len()
		}
		if mb != nil {
			lb = mb.len()
		}
		if la != lb {
			return false
		}
		if la == 0 {
			return true
		}
		for _, e := range ma.entries {
			v, ok := mb.lookup(i, e.key)
			if !ok || !deepEqual(i, u.Elem(), e.val, v) {
				return false
			}
		}
		return true
	case *types.Pointer:
		pa, _ := a.(*value)
		pb, _ := b.(*value)
		if pa == nil || pb == nil {
			return pa == pb
		}
		return deepEqual(i, u.Elem(), *pa, *pb)
	case *types.Interface:
		ia, ib := a.(iface), b.(iface)
		if ia.t == nil || ib.t == nil {
			return ia.t == nil && ib.t == nil
		}
		return types.Identical(ia.t, ib.t) && deepEqual(i, ia.t, ia.v, ib.v)
	}
	return i.truth(eqValue(i, t, a, b))
}

func (i *interpreter) arith2eq(a, b value) value {
	return eqValue(i, types.Typ[types.Int64], a, b)
}
