// Package smt is a small hash-consed SMT-LIB2 term builder with constant
// folding, used by the symbolic executor. Terms are printed as a sequence of
// define-fun's (one per compound node) so that DAG sharing is preserved.
package smt

import (
	"fmt"
	"math"
	"math/big"
	"strconv"
	"strings"
)

type Kind int

const (
	KBool Kind = iota
	KBV
	KInt
	KFP // float64
)

type Sort struct {
	K Kind
	W int
}

var (
	Bool = Sort{KBool, 0}
	Int  = Sort{KInt, 0}
	FP64 = Sort{KFP, 64}
)

func BV(w int) Sort { return Sort{KBV, w} }

func (s Sort) String() string {
	switch s.K {
	case KBool:
		return "Bool"
	case KBV:
		return fmt.Sprintf("(_ BitVec %d)", s.W)
	case KInt:
		return "Int"
	case KFP:
		return "(_ FloatingPoint 11 53)"
	}
	return "?"
}

type Term struct {
	ID   int
	Op   string // "const", "var", or an SMT-LIB operator head
	Args []*Term
	S    Sort
	Name string   // var name
	U    uint64   // BV (w<=64) / Bool constant
	Big  *big.Int // Int constant or wide BV constant
	F    float64  // FP constant
}

func (t *Term) IsConst() bool { return t.Op == "const" }
func (t *Term) IsTrue() bool  { return t.Op == "const" && t.S.K == KBool && t.U == 1 }
func (t *Term) IsFalse() bool { return t.Op == "const" && t.S.K == KBool && t.U == 0 }

// Ctx is a hash-consing table. Not safe for concurrent use.
type Ctx struct {
	tab   map[string]*Term
	n     int
	Vars  []*Term
	UFuns map[string]string // uninterpreted function declarations: name -> decl
}

func NewCtx() *Ctx {
	return &Ctx{tab: map[string]*Term{}, UFuns: map[string]string{}}
}

func (c *Ctx) intern(key string, mk func() *Term) *Term {
	if t, ok := c.tab[key]; ok {
		return t
	}
	t := mk()
	c.n++
	t.ID = c.n
	c.tab[key] = t
	return t
}

func (c *Ctx) Var(name string, s Sort) *Term {
	key := "v|" + name + "|" + s.String()
	return c.intern(key, func() *Term {
		t := &Term{Op: "var", S: s, Name: name}
		c.Vars = append(c.Vars, t)
		return t
	})
}

func (c *Ctx) BoolC(b bool) *Term {
	u := uint64(0)
	if b {
		u = 1
	}
	return c.intern(fmt.Sprintf("cb|%d", u), func() *Term { return &Term{Op: "const", S: Bool, U: u} })
}

func mask(w int) uint64 {
	if w >= 64 {
		return ^uint64(0)
	}
	return (uint64(1) << uint(w)) - 1
}

func (c *Ctx) BVC(w int, u uint64) *Term {
	if w > 64 {
		return c.BVBig(w, new(big.Int).SetUint64(u))
	}
	u &= mask(w)
	return c.intern(fmt.Sprintf("cv|%d|%d", w, u), func() *Term { return &Term{Op: "const", S: BV(w), U: u} })
}

func (c *Ctx) BVBig(w int, v *big.Int) *Term {
	m := new(big.Int).Lsh(big.NewInt(1), uint(w))
	v = new(big.Int).Mod(v, m)
	if w <= 64 {
		return c.BVC(w, v.Uint64())
	}
	return c.intern(fmt.Sprintf("cV|%d|%s", w, v.String()), func() *Term { return &Term{Op: "const", S: BV(w), Big: v} })
}

func (c *Ctx) IntC(v int64) *Term { return c.IntBig(big.NewInt(v)) }
func (c *Ctx) IntU(v uint64) *Term {
	return c.IntBig(new(big.Int).SetUint64(v))
}
func (c *Ctx) IntBig(v *big.Int) *Term {
	return c.intern("ci|"+v.String(), func() *Term { return &Term{Op: "const", S: Int, Big: new(big.Int).Set(v)} })
}

func (c *Ctx) FPC(f float64) *Term {
	return c.intern(fmt.Sprintf("cf|%x", math.Float64bits(f)), func() *Term { return &Term{Op: "const", S: FP64, F: f} })
}

func (c *Ctx) mk(op string, s Sort, args ...*Term) *Term {
	var sb strings.Builder
	sb.WriteString(op)
	sb.WriteByte('|')
	sb.WriteString(s.String())
	for _, a := range args {
		sb.WriteByte('|')
		sb.WriteString(strconv.Itoa(a.ID))
	}
	return c.intern(sb.String(), func() *Term { return &Term{Op: op, S: s, Args: append([]*Term(nil), args...)} })
}

// App builds an application of an uninterpreted function.
func (c *Ctx) App(name string, ret Sort, args ...*Term) *Term {
	if _, ok := c.UFuns[name]; !ok {
		var as []string
		for _, a := range args {
			as = append(as, a.S.String())
		}
		c.UFuns[name] = fmt.Sprintf("(declare-fun %s (%s) %s)", name, strings.Join(as, " "), ret)
	}
	return c.mk(name, ret, args...)
}

// ---- Bool ----

func (c *Ctx) Not(a *Term) *Term {
	if a.IsConst() {
		return c.BoolC(a.U == 0)
	}
	if a.Op == "not" {
		return a.Args[0]
	}
	return c.mk("not", Bool, a)
}

func (c *Ctx) And(as ...*Term) *Term {
	var out []*Term
	seen := map[int]bool{}
	for _, a := range as {
		if a.IsFalse() {
			return a
		}
		if a.IsTrue() || seen[a.ID] {
			continue
		}
		seen[a.ID] = true
		if a.Op == "and" {
			for _, b := range a.Args {
				if !seen[b.ID] {
					seen[b.ID] = true
					out = append(out, b)
				}
			}
			continue
		}
		out = append(out, a)
	}
	switch len(out) {
	case 0:
		return c.BoolC(true)
	case 1:
		return out[0]
	}
	return c.mk("and", Bool, out...)
}

func (c *Ctx) Or(as ...*Term) *Term {
	var out []*Term
	seen := map[int]bool{}
	for _, a := range as {
		if a.IsTrue() {
			return a
		}
		if a.IsFalse() || seen[a.ID] {
			continue
		}
		seen[a.ID] = true
		out = append(out, a)
	}
	switch len(out) {
	case 0:
		return c.BoolC(false)
	case 1:
		return out[0]
	}
	return c.mk("or", Bool, out...)
}

func (c *Ctx) Implies(a, b *Term) *Term { return c.Or(c.Not(a), b) }

func (c *Ctx) Ite(cond, a, b *Term) *Term {
	if cond.IsTrue() {
		return a
	}
	if cond.IsFalse() {
		return b
	}
	if a == b {
		return a
	}
	if a.S.K == KBool {
		if a.IsTrue() && b.IsFalse() {
			return cond
		}
		if a.IsFalse() && b.IsTrue() {
			return c.Not(cond)
		}
	}
	return c.mk("ite", a.S, cond, a, b)
}

func (c *Ctx) Eq(a, b *Term) *Term {
	if a == b {
		if a.S.K != KFP {
			return c.BoolC(true)
		}
	}
	if a.S != b.S {
		panic(fmt.Sprintf("smt.Eq: sort mismatch %v vs %v", a.S, b.S))
	}
	if a.IsConst() && b.IsConst() {
		switch a.S.K {
		case KBool:
			return c.BoolC(a.U == b.U)
		case KBV:
			if a.S.W <= 64 {
				return c.BoolC(a.U == b.U)
			}
			return c.BoolC(a.Big.Cmp(b.Big) == 0)
		case KInt:
			return c.BoolC(a.Big.Cmp(b.Big) == 0)
		case KFP:
			return c.BoolC(a.F == b.F)
		}
	}
	if a.S.K == KFP {
		return c.mk("fp.eq", Bool, a, b)
	}
	if a.S.K == KBool {
		if a.IsTrue() {
			return b
		}
		if b.IsTrue() {
			return a
		}
		if a.IsFalse() {
			return c.Not(b)
		}
		if b.IsFalse() {
			return c.Not(a)
		}
	}
	if a.ID > b.ID {
		a, b = b, a
	}
	return c.mk("=", Bool, a, b)
}

// ---- BV ----

func sext(u uint64, w int) int64 {
	if w >= 64 {
		return int64(u)
	}
	sh := uint(64 - w)
	return int64(u<<sh) >> sh
}

func (c *Ctx) bvFold2(op string, a, b *Term) (*Term, bool) {
	if !(a.IsConst() && b.IsConst()) || a.S.W > 64 {
		return nil, false
	}
	w := a.S.W
	x, y := a.U, b.U
	switch op {
	case "bvadd":
		return c.BVC(w, x+y), true
	case "bvsub":
		return c.BVC(w, x-y), true
	case "bvmul":
		return c.BVC(w, x*y), true
	case "bvand":
		return c.BVC(w, x&y), true
	case "bvor":
		return c.BVC(w, x|y), true
	case "bvxor":
		return c.BVC(w, x^y), true
	case "bvudiv":
		if y == 0 {
			return c.BVC(w, mask(w)), true
		}
		return c.BVC(w, x/y), true
	case "bvurem":
		if y == 0 {
			return c.BVC(w, x), true
		}
		return c.BVC(w, x%y), true
	case "bvsdiv":
		if y == 0 {
			return nil, false
		}
		sx, sy := sext(x, w), sext(y, w)
		if sy == -1 {
			return c.BVC(w, uint64(-sx)), true
		}
		return c.BVC(w, uint64(sx/sy)), true
	case "bvsrem":
		if y == 0 {
			return nil, false
		}
		sx, sy := sext(x, w), sext(y, w)
		if sy == -1 {
			return c.BVC(w, 0), true
		}
		return c.BVC(w, uint64(sx%sy)), true
	case "bvshl":
		if y >= uint64(w) {
			return c.BVC(w, 0), true
		}
		return c.BVC(w, x<<y), true
	case "bvlshr":
		if y >= uint64(w) {
			return c.BVC(w, 0), true
		}
		return c.BVC(w, x>>y), true
	case "bvashr":
		sx := sext(x, w)
		if y >= uint64(w) {
			y = uint64(w - 1)
		}
		return c.BVC(w, uint64(sx>>y)), true
	}
	return nil, false
}

func (c *Ctx) BV2(op string, a, b *Term) *Term {
	if a.S != b.S || a.S.K != KBV {
		panic(fmt.Sprintf("smt.BV2 %s: sort mismatch %v vs %v", op, a.S, b.S))
	}
	if r, ok := c.bvFold2(op, a, b); ok {
		return r
	}
	w := a.S.W
	isZero := func(t *Term) bool { return t.IsConst() && w <= 64 && t.U == 0 }
	switch op {
	case "bvadd", "bvor", "bvxor":
		if isZero(a) {
			return b
		}
		if isZero(b) {
			return a
		}
	case "bvsub", "bvshl", "bvlshr", "bvashr":
		if isZero(b) {
			return a
		}
	case "bvmul":
		if isZero(a) || isZero(b) {
			return c.BVC(w, 0)
		}
		if a.IsConst() && w <= 64 && a.U == 1 {
			return b
		}
		if b.IsConst() && w <= 64 && b.U == 1 {
			return a
		}
	case "bvand":
		if isZero(a) || isZero(b) {
			return c.BVC(w, 0)
		}
	}
	switch op {
	case "bvadd", "bvmul", "bvand", "bvor", "bvxor":
		if a.ID > b.ID {
			a, b = b, a
		}
	}
	return c.mk(op, a.S, a, b)
}

func (c *Ctx) BVNeg(a *Term) *Term {
	if a.IsConst() && a.S.W <= 64 {
		return c.BVC(a.S.W, -a.U)
	}
	return c.mk("bvneg", a.S, a)
}

func (c *Ctx) BVNot(a *Term) *Term {
	if a.IsConst() && a.S.W <= 64 {
		return c.BVC(a.S.W, ^a.U)
	}
	return c.mk("bvnot", a.S, a)
}

// BVCmp builds bvult/bvule/bvslt/bvsle.
func (c *Ctx) BVCmp(op string, a, b *Term) *Term {
	if a.S != b.S || a.S.K != KBV {
		panic(fmt.Sprintf("smt.BVCmp %s: sort mismatch %v vs %v", op, a.S, b.S))
	}
	if a.IsConst() && b.IsConst() && a.S.W <= 64 {
		w := a.S.W
		switch op {
		case "bvult":
			return c.BoolC(a.U < b.U)
		case "bvule":
			return c.BoolC(a.U <= b.U)
		case "bvslt":
			return c.BoolC(sext(a.U, w) < sext(b.U, w))
		case "bvsle":
			return c.BoolC(sext(a.U, w) <= sext(b.U, w))
		}
	}
	if a == b {
		return c.BoolC(op == "bvule" || op == "bvsle")
	}
	return c.mk(op, Bool, a, b)
}

func (c *Ctx) ZeroExt(a *Term, to int) *Term {
	k := to - a.S.W
	if k == 0 {
		return a
	}
	if k < 0 {
		panic("ZeroExt: shrinking")
	}
	if a.IsConst() && a.S.W <= 64 {
		if to <= 64 {
			return c.BVC(to, a.U)
		}
		return c.BVBig(to, new(big.Int).SetUint64(a.U))
	}
	return c.mk(fmt.Sprintf("(_ zero_extend %d)", k), BV(to), a)
}

func (c *Ctx) SignExt(a *Term, to int) *Term {
	k := to - a.S.W
	if k == 0 {
		return a
	}
	if k < 0 {
		panic("SignExt: shrinking")
	}
	if a.IsConst() && a.S.W <= 64 {
		if to <= 64 {
			return c.BVC(to, uint64(sext(a.U, a.S.W)))
		}
		return c.BVBig(to, big.NewInt(sext(a.U, a.S.W)))
	}
	return c.mk(fmt.Sprintf("(_ sign_extend %d)", k), BV(to), a)
}

func (c *Ctx) Extract(a *Term, hi, lo int) *Term {
	if lo == 0 && hi == a.S.W-1 {
		return a
	}
	if a.IsConst() && a.S.W <= 64 {
		return c.BVC(hi-lo+1, a.U>>uint(lo))
	}
	// extract of an extension that stays within the original operand
	if (strings.HasPrefix(a.Op, "(_ zero_extend") || strings.HasPrefix(a.Op, "(_ sign_extend")) && lo == 0 {
		in := a.Args[0]
		if hi == in.S.W-1 {
			return in
		}
		if hi < in.S.W-1 {
			return c.Extract(in, hi, lo)
		}
	}
	return c.mk(fmt.Sprintf("(_ extract %d %d)", hi, lo), BV(hi-lo+1), a)
}

func (c *Ctx) Concat(a, b *Term) *Term {
	return c.mk("concat", BV(a.S.W+b.S.W), a, b)
}

// ---- Int ----

func (c *Ctx) IntN(op string, args ...*Term) *Term {
	allc := true
	for _, a := range args {
		if a.S.K != KInt {
			panic("smt.IntN: non-Int operand for " + op)
		}
		if !a.IsConst() {
			allc = false
		}
	}
	if allc && len(args) == 2 {
		x, y := args[0].Big, args[1].Big
		switch op {
		case "+":
			return c.IntBig(new(big.Int).Add(x, y))
		case "-":
			return c.IntBig(new(big.Int).Sub(x, y))
		case "*":
			return c.IntBig(new(big.Int).Mul(x, y))
		case "tdiv":
			if y.Sign() != 0 {
				return c.IntBig(new(big.Int).Quo(x, y))
			}
		case "trem":
			if y.Sign() != 0 {
				return c.IntBig(new(big.Int).Rem(x, y))
			}
		case "mod":
			if y.Sign() != 0 {
				return c.IntBig(new(big.Int).Mod(x, y))
			}
		case "div":
			if y.Sign() != 0 {
				q, m := new(big.Int), new(big.Int)
				q.DivMod(x, y, m)
				return c.IntBig(q)
			}
		}
	}
	if len(args) == 2 {
		a, b := args[0], args[1]
		z := func(t *Term) bool { return t.IsConst() && t.Big.Sign() == 0 }
		one := func(t *Term) bool { return t.IsConst() && t.Big.Cmp(big.NewInt(1)) == 0 }
		switch op {
		case "+":
			if z(a) {
				return b
			}
			if z(b) {
				return a
			}
		case "-":
			if z(b) {
				return a
			}
		case "*":
			if z(a) || z(b) {
				return c.IntC(0)
			}
			if one(a) {
				return b
			}
			if one(b) {
				return a
			}
		case "tdiv", "div":
			if one(b) {
				return a
			}
		}
	}
	return c.mk(op, Int, args...)
}

func (c *Ctx) IntNeg(a *Term) *Term {
	if a.IsConst() {
		return c.IntBig(new(big.Int).Neg(a.Big))
	}
	return c.mk("-", Int, a)
}

func (c *Ctx) IntCmp(op string, a, b *Term) *Term {
	if a.IsConst() && b.IsConst() {
		r := a.Big.Cmp(b.Big)
		switch op {
		case "<":
			return c.BoolC(r < 0)
		case "<=":
			return c.BoolC(r <= 0)
		case ">":
			return c.BoolC(r > 0)
		case ">=":
			return c.BoolC(r >= 0)
		}
	}
	if a == b {
		return c.BoolC(op == "<=" || op == ">=")
	}
	return c.mk(op, Bool, a, b)
}

// ---- FP ----

func (c *Ctx) FP2(op string, a, b *Term) *Term {
	if a.IsConst() && b.IsConst() {
		switch op {
		case "fp.add":
			return c.FPC(a.F + b.F)
		case "fp.sub":
			return c.FPC(a.F - b.F)
		case "fp.mul":
			return c.FPC(a.F * b.F)
		case "fp.div":
			return c.FPC(a.F / b.F)
		}
	}
	return c.mk(op+" RNE", FP64, a, b)
}

func (c *Ctx) FP1(op string, a *Term) *Term {
	if a.IsConst() {
		switch op {
		case "fp.neg":
			return c.FPC(-a.F)
		case "fp.abs":
			return c.FPC(math.Abs(a.F))
		case "fp.roundToIntegral RNA":
			return c.FPC(math.Round(a.F))
		case "fp.roundToIntegral RTZ":
			return c.FPC(math.Trunc(a.F))
		case "fp.roundToIntegral RTN":
			return c.FPC(math.Floor(a.F))
		case "fp.roundToIntegral RTP":
			return c.FPC(math.Ceil(a.F))
		case "fp.sqrt RNE":
			return c.FPC(math.Sqrt(a.F))
		}
	}
	return c.mk(op, FP64, a)
}

func (c *Ctx) FPCmp(op string, a, b *Term) *Term {
	if a.IsConst() && b.IsConst() {
		switch op {
		case "fp.lt":
			return c.BoolC(a.F < b.F)
		case "fp.leq":
			return c.BoolC(a.F <= b.F)
		case "fp.gt":
			return c.BoolC(a.F > b.F)
		case "fp.geq":
			return c.BoolC(a.F >= b.F)
		case "fp.eq":
			return c.BoolC(a.F == b.F)
		}
	}
	return c.mk(op, Bool, a, b)
}

func (c *Ctx) FPIsNaN(a *Term) *Term {
	if a.IsConst() {
		return c.BoolC(math.IsNaN(a.F))
	}
	return c.mk("fp.isNaN", Bool, a)
}

func (c *Ctx) FPIsInf(a *Term) *Term {
	if a.IsConst() {
		return c.BoolC(math.IsInf(a.F, 0))
	}
	return c.mk("fp.isInfinite", Bool, a)
}

// FPFromBV converts a bit-vector integer to float64 (round to nearest even).
func (c *Ctx) FPFromBV(a *Term, signed bool) *Term {
	if a.IsConst() && a.S.W <= 64 {
		if signed {
			return c.FPC(float64(sext(a.U, a.S.W)))
		}
		return c.FPC(float64(a.U))
	}
	if signed {
		return c.mk("(_ to_fp 11 53) RNE", FP64, a)
	}
	return c.mk("(_ to_fp_unsigned 11 53) RNE", FP64, a)
}

// FPToBV converts with truncation toward zero; the result is unspecified by
// SMT-LIB when out of range, so callers must guard the range themselves.
func (c *Ctx) FPToBV(a *Term, w int, signed bool) *Term {
	if signed {
		return c.mk(fmt.Sprintf("(_ fp.to_sbv %d) RTZ", w), BV(w), a)
	}
	return c.mk(fmt.Sprintf("(_ fp.to_ubv %d) RTZ", w), BV(w), a)
}

// IntToBV64 is (_ int2bv 64): the integer modulo 2^64 as a bit-vector.
func (c *Ctx) IntToBV64(a *Term) *Term {
	if a.IsConst() && a.Big != nil {
		m := new(big.Int).And(a.Big, new(big.Int).SetUint64(^uint64(0)))
		return c.BVC(64, m.Uint64())
	}
	return c.mk("(_ int2bv 64)", BV(64), a)
}

// FPFromBits reinterprets a 64-bit vector as an IEEE double.
func (c *Ctx) FPFromBits(a *Term) *Term {
	if a.IsConst() {
		return c.FPC(math.Float64frombits(a.U))
	}
	return c.mk("(_ to_fp 11 53)", FP64, a)
}

// ---- Printing ----

func (t *Term) leaf() (string, bool) {
	switch t.Op {
	case "var":
		return t.Name, true
	case "const":
		switch t.S.K {
		case KBool:
			if t.U == 1 {
				return "true", true
			}
			return "false", true
		case KBV:
			if t.S.W <= 64 {
				if t.S.W%4 == 0 {
					return fmt.Sprintf("#x%0*x", t.S.W/4, t.U), true
				}
				return fmt.Sprintf("#b%0*b", t.S.W, t.U), true
			}
			return fmt.Sprintf("(_ bv%s %d)", t.Big.String(), t.S.W), true
		case KInt:
			if t.Big.Sign() < 0 {
				return "(- " + new(big.Int).Neg(t.Big).String() + ")", true
			}
			return t.Big.String(), true
		case KFP:
			b := math.Float64bits(t.F)
			return fmt.Sprintf("(fp #b%b #b%011b #b%052b)", b>>63, (b>>52)&0x7ff, b&((1<<52)-1)), true
		}
	}
	return "", false
}

// Ref returns the name by which t is referred to in emitted SMT-LIB
// (a literal, a variable, or tN).
func (t *Term) Ref() string {
	if s, ok := t.leaf(); ok {
		return s
	}
	return "t" + strconv.Itoa(t.ID)
}

// Def returns the define-fun line for a compound term.
func (t *Term) Def() string {
	var sb strings.Builder
	fmt.Fprintf(&sb, "(define-fun t%d () %s (%s", t.ID, t.S, t.Op)
	for _, a := range t.Args {
		sb.WriteByte(' ')
		sb.WriteString(a.Ref())
	}
	sb.WriteString("))")
	return sb.String()
}

// String renders the term fully inlined (for diagnostics / evidence samples).
func (t *Term) String() string {
	return t.str(0)
}

func (t *Term) str(depth int) string {
	if s, ok := t.leaf(); ok {
		return s
	}
	if depth > 12 {
		return "t" + strconv.Itoa(t.ID)
	}
	var sb strings.Builder
	sb.WriteString("(" + t.Op)
	for _, a := range t.Args {
		sb.WriteByte(' ')
		sb.WriteString(a.str(depth + 1))
	}
	sb.WriteString(")")
	return sb.String()
}
