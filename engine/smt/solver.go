package smt

import (
	"bufio"
	"context"
	"fmt"
	"io"
	"math"
	"math/big"
	"os"
	"os/exec"
	"strconv"
	"strings"
	"sync"
	"time"
)

type Result int

const (
	Unsat Result = iota
	Sat
	Unknown
)

func (r Result) String() string {
	return [...]string{"unsat", "sat", "unknown"}[r]
}

// Value is a model value for a variable.
type Value struct {
	S   Sort
	U   uint64   // Bool / BV<=64
	Big *big.Int // Int / wide BV
	F   float64
}

func (v Value) String() string {
	switch v.S.K {
	case KBool:
		return strconv.FormatBool(v.U == 1)
	case KBV:
		if v.Big != nil {
			return v.Big.String()
		}
		return strconv.FormatUint(v.U, 10)
	case KInt:
		return v.Big.String()
	case KFP:
		return strconv.FormatFloat(v.F, 'g', -1, 64)
	}
	return "?"
}

const prelude = `(define-fun tdiv ((a Int) (b Int)) Int (ite (>= a 0) (ite (> b 0) (div a b) (- (div a (- b)))) (ite (> b 0) (- (div (- a) b)) (div (- a) (- b)))))
(define-fun trem ((a Int) (b Int)) Int (- a (* b (tdiv a b))))
`

// Stats are shared by all solver processes of a check.
type Stats struct {
	mu      sync.Mutex
	Queries map[string]int
	Time    map[string]time.Duration
	Unknown int
	Errors  int
}

func NewStats() *Stats {
	return &Stats{Queries: map[string]int{}, Time: map[string]time.Duration{}}
}

func (st *Stats) add(name string, d time.Duration, r Result, err bool) {
	if st == nil {
		return
	}
	st.mu.Lock()
	st.Queries[name]++
	st.Time[name] += d
	if r == Unknown {
		st.Unknown++
	}
	if err {
		st.Errors++
	}
	st.mu.Unlock()
}

func solverCmd(kind string, timeoutMs int) (string, []string, []string) {
	switch kind {
	case "z3", "z3-new":
		return kind, []string{"-in"}, []string{
			"(set-option :produce-models true)",
			fmt.Sprintf("(set-option :timeout %d)", timeoutMs),
		}
	case "cvc5":
		return "cvc5", []string{"--incremental", "--produce-models", fmt.Sprintf("--tlimit-per=%d", timeoutMs)}, []string{"(set-logic ALL)"}
	}
	panic("unknown solver " + kind)
}

// Solver is one long-lived incremental solver process. The protocol is:
// BeginRun (push) ... Assert/Check ... EndRun (pop). Definitions and
// declarations are emitted lazily at run level and recorded in the run script
// so that a hard query can be re-issued one-shot to a portfolio of solvers.
type Solver struct {
	Kind      string
	ctx       *Ctx
	cmd       *exec.Cmd
	in        io.WriteCloser
	out       *bufio.Reader
	defined   map[int]bool
	ufDone    map[string]bool
	script    []string // run-level lines (decls, defs, asserts)
	inRun     bool
	Stats     *Stats
	TimeoutMs int
	Log       io.Writer
	LastErr   string
}

func Start(kind string, ctx *Ctx, st *Stats, timeoutMs int) (*Solver, error) {
	s := &Solver{Kind: kind, ctx: ctx, Stats: st, TimeoutMs: timeoutMs}
	if err := s.spawn(); err != nil {
		return nil, err
	}
	return s, nil
}

func (s *Solver) spawn() error {
	bin, args, opts := solverCmd(s.Kind, s.TimeoutMs)
	s.cmd = exec.Command(bin, args...)
	in, err := s.cmd.StdinPipe()
	if err != nil {
		return err
	}
	out, err := s.cmd.StdoutPipe()
	if err != nil {
		return err
	}
	s.cmd.Stderr = s.cmd.Stdout
	if err := s.cmd.Start(); err != nil {
		return err
	}
	s.in, s.out = in, bufio.NewReaderSize(out, 1<<16)
	for _, o := range opts {
		s.send(o)
	}
	s.send(prelude)
	s.defined = map[int]bool{}
	s.ufDone = map[string]bool{}
	return nil
}

func (s *Solver) Close() {
	if s.cmd != nil && s.cmd.Process != nil {
		s.in.Close()
		s.cmd.Process.Kill()
		s.cmd.Wait()
	}
}

func (s *Solver) restart() {
	s.Close()
	if err := s.spawn(); err != nil {
		panic("solver restart: " + err.Error())
	}
	if s.inRun {
		s.send("(push 1)")
		for _, l := range s.script {
			s.send(l)
		}
	}
}

func (s *Solver) send(line string) {
	if s.Log != nil {
		fmt.Fprintln(s.Log, line)
	}
	io.WriteString(s.in, line)
	io.WriteString(s.in, "\n")
}

func (s *Solver) runLine(line string) {
	s.script = append(s.script, line)
	s.send(line)
}

func (s *Solver) BeginRun() {
	s.defined = map[int]bool{}
	s.ufDone = map[string]bool{}
	s.script = s.script[:0]
	s.inRun = true
	s.send("(push 1)")
}

func (s *Solver) EndRun() {
	s.inRun = false
	s.send("(pop 1)")
}

// ensure emits declarations/definitions for all nodes of t at run level.
func (s *Solver) ensure(t *Term) {
	if s.defined[t.ID] {
		return
	}
	s.defined[t.ID] = true
	switch t.Op {
	case "const":
		return
	case "var":
		s.runLine(fmt.Sprintf("(declare-const %s %s)", t.Name, t.S))
		return
	}
	for _, a := range t.Args {
		s.ensure(a)
	}
	if d, ok := s.ctx.UFuns[t.Op]; ok && !s.ufDone[t.Op] {
		s.ufDone[t.Op] = true
		s.runLine(d)
	}
	s.runLine(t.Def())
}

// Assert adds t to the run-level assertion stack (path condition).
func (s *Solver) Assert(t *Term) {
	if t.IsTrue() {
		return
	}
	s.ensure(t)
	s.runLine("(assert " + t.Ref() + ")")
}

func (s *Solver) readLine() (string, error) {
	line, err := s.out.ReadString('\n')
	return strings.TrimSpace(line), err
}

// readSexp reads one balanced s-expression (possibly spanning lines).
func (s *Solver) readSexp() (string, error) {
	var sb strings.Builder
	depth := 0
	started := false
	for {
		line, err := s.out.ReadString('\n')
		if err != nil {
			return sb.String(), err
		}
		for _, ch := range line {
			if ch == '(' {
				depth++
				started = true
			} else if ch == ')' {
				depth--
			}
		}
		sb.WriteString(line)
		if started && depth <= 0 {
			return sb.String(), nil
		}
		if !started && strings.TrimSpace(line) != "" {
			return sb.String(), nil
		}
	}
}

func parseResult(line string) (Result, bool) {
	switch line {
	case "sat":
		return Sat, true
	case "unsat":
		return Unsat, true
	case "unknown", "timeout":
		return Unknown, true
	}
	return Unknown, false
}

// Check asks whether pc ∧ extra is satisfiable. If wantModel is non-nil and the
// answer is sat, values of those variables are returned.
func (s *Solver) Check(extra []*Term, wantModel []*Term) (Result, map[string]Value) {
	for _, e := range extra {
		s.ensure(e)
	}
	for _, v := range wantModel {
		s.ensure(v)
	}
	t0 := time.Now()
	s.send("(push 1)")
	for _, e := range extra {
		if !e.IsTrue() {
			s.send("(assert " + e.Ref() + ")")
		}
	}
	s.send("(check-sat)")
	line, err := s.readLine()
	res, ok := parseResult(line)
	if err != nil || !ok {
		// error output or dead process: inconclusive, restart the process
		s.LastErr = line
		s.Stats.add(s.Kind, time.Since(t0), Unknown, true)
		if os.Getenv("VERIF_DEBUG") != "" {
			fmt.Fprintf(os.Stderr, "solver %s error: %q (%v)\n", s.Kind, line, err)
		}
		s.restart()
		return Unknown, nil
	}
	var model map[string]Value
	if res == Sat && len(wantModel) > 0 {
		var names []string
		for _, v := range wantModel {
			names = append(names, v.Ref())
		}
		s.send("(get-value (" + strings.Join(names, " ") + "))")
		txt, err := s.readSexp()
		if err == nil && !strings.Contains(txt, "(error") {
			model = parseModel(txt, wantModel)
		} else {
			s.LastErr = txt
		}
	}
	s.send("(pop 1)")
	s.Stats.add(s.Kind, time.Since(t0), res, false)
	return res, model
}

// Script returns a self-contained SMT-LIB script for pc ∧ extra.
func (s *Solver) Script(kind string, extra []*Term, wantModel []*Term) string {
	// Definitions for extras may already be in the run script (ensure was called
	// by Check); make sure by ensuring again (no-op if present).
	for _, e := range extra {
		s.ensure(e)
	}
	for _, v := range wantModel {
		s.ensure(v)
	}
	var sb strings.Builder
	_, _, opts := solverCmd(kind, 0)
	for _, o := range opts {
		if strings.Contains(o, ":timeout") {
			continue
		}
		sb.WriteString(o + "\n")
	}
	sb.WriteString(prelude)
	for _, l := range s.script {
		sb.WriteString(l + "\n")
	}
	for _, e := range extra {
		if !e.IsTrue() {
			sb.WriteString("(assert " + e.Ref() + ")\n")
		}
	}
	sb.WriteString("(check-sat)\n")
	if len(wantModel) > 0 {
		var names []string
		for _, v := range wantModel {
			names = append(names, v.Ref())
		}
		sb.WriteString("(get-value (" + strings.Join(names, " ") + "))\n")
	}
	return sb.String()
}

// OneShot runs the query in fresh processes of each listed solver kind in
// parallel; the first decisive answer wins. Any "(error" makes that solver's
// answer inconclusive.
func (s *Solver) OneShot(kinds []string, extra []*Term, wantModel []*Term, timeout time.Duration) (Result, map[string]Value, string) {
	type ans struct {
		r    Result
		m    map[string]Value
		kind string
	}
	ctx, cancel := context.WithTimeout(context.Background(), timeout)
	defer cancel()
	ch := make(chan ans, len(kinds))
	for _, k := range kinds {
		script := s.Script(k, extra, wantModel)
		go func(k, script string) {
			t0 := time.Now()
			bin, args, _ := solverCmd(k, 0)
			var a []string
			for _, x := range args {
				if strings.HasPrefix(x, "--tlimit-per") || x == "--incremental" {
					continue
				}
				a = append(a, x)
			}
			cmd := exec.CommandContext(ctx, bin, a...)
			cmd.Stdin = strings.NewReader(script)
			out, _ := cmd.CombinedOutput()
			txt := string(out)
			r := Unknown
			var m map[string]Value
			if !strings.Contains(txt, "(error") {
				lines := strings.SplitN(strings.TrimSpace(txt), "\n", 2)
				if rr, ok := parseResult(strings.TrimSpace(lines[0])); ok {
					r = rr
					if r == Sat && len(lines) > 1 && len(wantModel) > 0 {
						m = parseModel(lines[1], wantModel)
					}
				}
			} else if os.Getenv("VERIF_DEBUG") != "" {
				fmt.Fprintf(os.Stderr, "oneshot %s error: %.300s\n", k, txt)
			}
			s.Stats.add(k+"-oneshot", time.Since(t0), r, strings.Contains(txt, "(error"))
			ch <- ans{r, m, k}
		}(k, script)
	}
	for range kinds {
		a := <-ch
		if a.r != Unknown {
			return a.r, a.m, a.kind
		}
	}
	return Unknown, nil, ""
}

// ---- model parsing ----

type sexp struct {
	atom string
	list []*sexp
}

func parseSexp(s string) *sexp {
	pos := 0
	var parse func() *sexp
	skip := func() {
		for pos < len(s) && (s[pos] == ' ' || s[pos] == '\n' || s[pos] == '\t' || s[pos] == '\r') {
			pos++
		}
	}
	parse = func() *sexp {
		skip()
		if pos >= len(s) {
			return nil
		}
		if s[pos] == '(' {
			pos++
			n := &sexp{list: []*sexp{}}
			for {
				skip()
				if pos >= len(s) {
					return n
				}
				if s[pos] == ')' {
					pos++
					return n
				}
				n.list = append(n.list, parse())
			}
		}
		st := pos
		if s[pos] == '|' {
			pos++
			for pos < len(s) && s[pos] != '|' {
				pos++
			}
			pos++
			return &sexp{atom: s[st:pos]}
		}
		for pos < len(s) && !strings.ContainsRune(" \n\t\r()", rune(s[pos])) {
			pos++
		}
		return &sexp{atom: s[st:pos]}
	}
	return parse()
}

func bitsOf(a string) (uint64, *big.Int, int) {
	if strings.HasPrefix(a, "#x") {
		b, _ := new(big.Int).SetString(a[2:], 16)
		return b.Uint64(), b, 4 * (len(a) - 2)
	}
	if strings.HasPrefix(a, "#b") {
		b, _ := new(big.Int).SetString(a[2:], 2)
		return b.Uint64(), b, len(a) - 2
	}
	return 0, nil, 0
}

func parseValue(e *sexp, so Sort) (Value, bool) {
	v := Value{S: so}
	switch so.K {
	case KBool:
		if e.atom == "true" {
			v.U = 1
		}
		return v, e.atom == "true" || e.atom == "false"
	case KBV:
		if e.atom != "" {
			u, b, n := bitsOf(e.atom)
			if n == 0 {
				return v, false
			}
			v.U = u
			if so.W > 64 {
				v.Big = b
			}
			return v, true
		}
		// (_ bvN w)
		if len(e.list) == 3 && e.list[0].atom == "_" && strings.HasPrefix(e.list[1].atom, "bv") {
			b, ok := new(big.Int).SetString(e.list[1].atom[2:], 10)
			if !ok {
				return v, false
			}
			v.U = b.Uint64()
			if so.W > 64 {
				v.Big = b
			}
			return v, true
		}
	case KInt:
		if e.atom != "" {
			b, ok := new(big.Int).SetString(e.atom, 10)
			v.Big = b
			return v, ok
		}
		if len(e.list) == 2 && e.list[0].atom == "-" {
			b, ok := new(big.Int).SetString(e.list[1].atom, 10)
			if ok {
				v.Big = b.Neg(b)
			}
			return v, ok
		}
	case KFP:
		if len(e.list) == 4 && e.list[0].atom == "fp" {
			sg, _, _ := bitsOf(e.list[1].atom)
			ex, _, _ := bitsOf(e.list[2].atom)
			mn, _, _ := bitsOf(e.list[3].atom)
			v.F = math.Float64frombits(sg<<63 | ex<<52 | mn)
			return v, true
		}
		if len(e.list) == 4 && e.list[0].atom == "_" {
			switch e.list[1].atom {
			case "+zero":
				v.F = 0
			case "-zero":
				v.F = math.Copysign(0, -1)
			case "+oo":
				v.F = math.Inf(1)
			case "-oo":
				v.F = math.Inf(-1)
			case "NaN":
				v.F = math.NaN()
			default:
				return v, false
			}
			return v, true
		}
	}
	return v, false
}

func parseModel(txt string, vars []*Term) map[string]Value {
	e := parseSexp(txt)
	m := map[string]Value{}
	if e == nil {
		return m
	}
	byName := map[string]Sort{}
	for _, v := range vars {
		byName[v.Ref()] = v.S
	}
	for _, p := range e.list {
		if len(p.list) != 2 {
			continue
		}
		name := p.list[0].atom
		so, ok := byName[name]
		if !ok {
			continue
		}
		if v, ok := parseValue(p.list[1], so); ok {
			m[name] = v
		}
	}
	return m
}
