// vcheck runs the solver-based checks of one property against /repo's
// current working tree.
//
//	vcheck C01 --tier quick|thorough
//	vcheck C01 --replay /verif/replay/C01/0.json
//	vcheck --list
package main

import (
	"context"
	"encoding/json"
	"flag"
	"fmt"
	"go/ast"
	"go/parser"
	"go/token"
	"os"
	"os/exec"
	"path/filepath"
	"regexp"
	"sort"
	"strconv"
	"strings"
	"sync"
	"sync/atomic"
	"time"

	"verif/engine/symgo"
)

var (
	verifDir = envOr("VERIF_DIR", "/verif")
	repoDir  = envOr("VERIF_REPO", "/repo")
	// outDir receives evidence/ and replay/; it differs from verifDir only when
	// a scratch copy of the repository is checked (mutants/ptry.sh)
	outDir = envOr("VERIF_OUT", envOr("VERIF_DIR", "/verif"))
)

// bmcSlots bounds the number of BMC solver processes running at the same time.
var bmcSlots = make(chan struct{}, 12)

// stopCtx is cancelled once some harness instance has reported a finding.
var stopCtx, stopAll = context.WithCancel(context.Background())

func envOr(k, d string) string {
	if v := os.Getenv(k); v != "" {
		return v
	}
	return d
}

type harness struct {
	Prop    string
	Func    string
	Dir     string // harness dir under /verif/harness
	PkgDir  string // package dir relative to the repository
	File    string
	Opts    map[string]string
	Witness string
}

type knownFinding struct {
	Property string `json:"property"`
	ID       string `json:"id"`
	Status   string `json:"status"` // open | fixed
	What     string `json:"what"`
	Commit   string `json:"commit,omitempty"`
	Witness  string `json:"witness,omitempty"`
}

func pkgDirOf(dir string) string {
	if dir == "root" {
		return "."
	}
	return strings.ReplaceAll(dir, "__", "/")
}

var harnessRe = regexp.MustCompile(`^verif_harness_(C\d\d)_`)

func discover() ([]harness, map[string]string, error) {
	var hs []harness
	pkgNames := map[string]string{}
	dirs, err := os.ReadDir(filepath.Join(verifDir, "harness"))
	if err != nil {
		return nil, nil, err
	}
	for _, d := range dirs {
		if !d.IsDir() || strings.HasPrefix(d.Name(), "_") {
			continue
		}
		files, _ := filepath.Glob(filepath.Join(verifDir, "harness", d.Name(), "*.go"))
		for _, f := range files {
			fset := token.NewFileSet()
			af, err := parser.ParseFile(fset, f, nil, parser.ParseComments)
			if err != nil {
				return nil, nil, err
			}
			pkgNames[d.Name()] = af.Name.Name
			for _, decl := range af.Decls {
				fd, ok := decl.(*ast.FuncDecl)
				if !ok || fd.Recv != nil {
					continue
				}
				m := harnessRe.FindStringSubmatch(fd.Name.Name)
				if m == nil {
					continue
				}
				h := harness{Prop: m[1], Func: fd.Name.Name, Dir: d.Name(), PkgDir: pkgDirOf(d.Name()), File: f, Opts: map[string]string{}}
				if fd.Doc != nil {
					for _, c := range fd.Doc.List {
						if strings.HasPrefix(c.Text, "//verif:harness") {
							for _, kv := range strings.Fields(c.Text)[1:] {
								if k, v, ok := strings.Cut(kv, "="); ok {
									h.Opts[k] = v
								}
							}
						}
					}
				}
				h.Witness = h.Opts["witness"]
				hs = append(hs, h)
			}
		}
	}
	sort.Slice(hs, func(a, b int) bool { return hs[a].Func < hs[b].Func })
	return hs, pkgNames, nil
}

func loadKnown() []knownFinding {
	var out []knownFinding
	b, err := os.ReadFile(filepath.Join(verifDir, "known_findings.jsonl"))
	if err != nil {
		return nil
	}
	for _, l := range strings.Split(string(b), "\n") {
		l = strings.TrimSpace(l)
		if l == "" || strings.HasPrefix(l, "#") {
			continue
		}
		var k knownFinding
		if json.Unmarshal([]byte(l), &k) == nil {
			out = append(out, k)
		}
	}
	return out
}

func tmpl(name, pkg, hmap string) []byte {
	b, err := os.ReadFile(filepath.Join(verifDir, "harness", "_tmpl", name))
	if err != nil {
		fatal("template %s: %v", name, err)
	}
	s := strings.ReplaceAll(string(b), "PKGNAME", pkg)
	s = strings.ReplaceAll(s, "HARNESSMAP", hmap)
	return []byte(s)
}

func fatal(format string, a ...interface{}) {
	fmt.Fprintf(os.Stderr, "vcheck: "+format+"\n", a...)
	os.Exit(2)
}

// engineOverlay maps virtual files inside the repository to harness sources.
func engineOverlay(dirs map[string]bool, pkgNames map[string]string) map[string][]byte {
	ov := map[string][]byte{}
	for d := range dirs {
		files, _ := filepath.Glob(filepath.Join(verifDir, "harness", d, "*.go"))
		for _, f := range files {
			b, _ := os.ReadFile(f)
			ov[filepath.Join(repoDir, pkgDirOf(d), filepath.Base(f))] = b
		}
		ov[filepath.Join(repoDir, pkgDirOf(d), "zz_verif_intrinsics.go")] = tmpl("intrinsics_engine.go.txt", pkgNames[d], "")
	}
	return ov
}

type job struct {
	h      harness
	params map[string]int
	label  string
}

func parseRange(s string) []int {
	var out []int
	for _, part := range strings.Split(s, ",") {
		if a, b, ok := strings.Cut(part, ".."); ok {
			x, _ := strconv.Atoi(a)
			y, _ := strconv.Atoi(b)
			for v := x; v <= y; v++ {
				out = append(out, v)
			}
		} else if v, err := strconv.Atoi(part); err == nil {
			out = append(out, v)
		}
	}
	return out
}

// expand produces one job per parameter instance. Options "param.T=3..8"
// and "thorough.param.T=3..24" declare a parameter range.
func expand(h harness, tier string) []job {
	params := map[string][]int{}
	for k, v := range h.Opts {
		if strings.HasPrefix(k, "param.") {
			if _, over := h.Opts[tier+"."+k]; !over {
				params[strings.TrimPrefix(k, "param.")] = parseRange(v)
			}
		}
		if strings.HasPrefix(k, tier+".param.") {
			params[strings.TrimPrefix(k, tier+".param.")] = parseRange(v)
		}
	}
	jobs := []job{{h: h, params: map[string]int{}}}
	var names []string
	for n := range params {
		names = append(names, n)
	}
	sort.Strings(names)
	for _, n := range names {
		var next []job
		for _, j := range jobs {
			for _, v := range params[n] {
				p := map[string]int{}
				for k, x := range j.params {
					p[k] = x
				}
				p[n] = v
				next = append(next, job{h: h, params: p})
			}
		}
		jobs = next
	}
	if ov := os.Getenv("VERIF_PARAM"); ov != "" {
		// development aid: VERIF_PARAM=N=2 overrides a parameter range
		if k, v, ok := strings.Cut(ov, "="); ok {
			if _, has := params[k]; has {
				var next []job
				seen := map[string]bool{}
				for _, j := range jobs {
					p := map[string]int{}
					for a, b := range j.params {
						p[a] = b
					}
					p[k], _ = strconv.Atoi(v)
					key := fmt.Sprint(p)
					if !seen[key] {
						seen[key] = true
						next = append(next, job{h: h, params: p})
					}
				}
				jobs = next
			}
		}
	}
	for k := range jobs {
		jobs[k].label = h.Func
		for _, n := range names {
			jobs[k].label += fmt.Sprintf("[%s=%d]", n, jobs[k].params[n])
		}
	}
	return jobs
}

func opt(h harness, tier, key, def string) string {
	if v, ok := h.Opts[tier+"."+key]; ok {
		return v
	}
	if v, ok := h.Opts[key]; ok {
		return v
	}
	return def
}

type jobResult struct {
	job  job
	ex   *symgo.Explorer
	err  error
	wall time.Duration
}

func main() {
	tier := flag.String("tier", envOr("VERIF_TIER", "quick"), "quick or thorough")
	replay := flag.String("replay", "", "replay a counterexample file natively")
	list := flag.Bool("list", false, "list harnesses")
	dump := flag.String("dump-trees", "", "extract and print the thread trees of the named harness")
	only := flag.String("only", "", "run only harnesses whose name contains this")
	par := flag.Int("j", 14, "parallel harness instances")
	var prop string
	args := os.Args[1:]
	if len(args) > 0 && !strings.HasPrefix(args[0], "-") {
		prop = args[0]
		args = args[1:]
	}
	flag.CommandLine.Parse(args)

	hs, pkgNames, err := discover()
	if err != nil {
		fatal("discover: %v", err)
	}
	if *list {
		for _, h := range hs {
			fmt.Printf("%s %s (%s) %v\n", h.Prop, h.Func, h.PkgDir, h.Opts)
		}
		return
	}
	if *dump != "" {
		for _, h := range hs {
			if h.Func == *dump {
				dirs := map[string]bool{h.Dir: true}
				if w := h.Opts["with"]; w != "" {
					dirs[w] = true
				}
				eng, err := symgo.Load(repoDir, []string{"./" + h.PkgDir}, engineOverlay(dirs, pkgNames))
				if err != nil {
					fatal("%v", err)
				}
				pk := ""
				for _, p := range eng.Pkgs {
					pk = p.PkgPath
				}
				js := expand(h, *tier)
				tr, err := eng.ExtractTrees(symgo.HarnessCfg{Pkg: pk, Func: h.Func, Params: js[len(js)-1].params, Tier: *tier, Unwind: 16, Label: h.Func, MaxEvents: 60, MaxRecv: js[len(js)-1].params["N"]})
				if err != nil {
					fatal("%v", err)
				}
				dumpTrees(tr)
				for _, ic := range tr.Ex.Inconcl {
					fmt.Println("INCONCLUSIVE", ic.Kind, ic.Msg)
				}
			}
		}
		return
	}
	if *replay != "" {
		ok, out := replayFile(*replay, hs, pkgNames)
		fmt.Print(out)
		if ok {
			fmt.Printf("VIOLATION property=%s replay=%s\n", prop, *replay)
			os.Exit(1)
		}
		fmt.Println("replay: not reproduced")
		return
	}
	if prop == "" {
		fatal("usage: vcheck <property> [--tier quick|thorough]")
	}
	os.Exit(runProperty(prop, *tier, *only, *par, hs, pkgNames))
}

func runProperty(prop, tier, only string, par int, hs []harness, pkgNames map[string]string) int {
	t0 := time.Now()
	seed, _ := strconv.Atoi(os.Getenv("VERIF_SEED"))
	known := loadKnown()
	open := map[string]knownFinding{}
	for _, k := range known {
		if k.Status == "open" {
			open[k.ID] = k
		}
	}
	var mine []harness
	dirs := map[string]bool{}
	for _, h := range hs {
		if h.Prop != prop {
			continue
		}
		if only != "" && !strings.Contains(h.Func, only) {
			continue
		}
		tiers := opt(h, tier, "tiers", "quick,thorough")
		if !strings.Contains(tiers, tier) {
			continue
		}
		mine = append(mine, h)
		dirs[h.Dir] = true
		// "with=<dir>": the harness uses helpers from another harness directory
		if w := h.Opts["with"]; w != "" {
			dirs[w] = true
		}
	}
	if len(mine) == 0 {
		fatal("no harness for property %s", prop)
	}
	// every file of a harness directory is overlaid, so the helper directories
	// any of its harnesses names ("with=") must be overlaid as well
	for changed := true; changed; {
		changed = false
		for _, h := range hs {
			if w := h.Opts["with"]; w != "" && dirs[h.Dir] && !dirs[w] {
				dirs[w] = true
				changed = true
			}
		}
	}
	var patterns []string
	for d := range dirs {
		patterns = append(patterns, "./"+pkgDirOf(d))
	}
	sort.Strings(patterns)
	tl := time.Now()
	eng, err := symgo.Load(repoDir, patterns, engineOverlay(dirs, pkgNames))
	if err != nil {
		// the tree does not type-check with the harness: nothing can be decided
		fmt.Fprintf(os.Stderr, "vcheck: cannot load %s with harness overlay: %v\n", repoDir, err)
		writeEvidence(prop, tier, seed, nil, nil, time.Since(t0), 0, []string{"load-error: " + err.Error()}, nil)
		fmt.Printf("INCONCLUSIVE property=%s reason=load-error\n", prop)
		return 2
	}
	loadTime := time.Since(tl)
	for id := range open {
		eng.KnownOpen[id] = true
	}
	modPath := ""
	for _, p := range eng.Pkgs {
		if p.Module != nil {
			modPath = p.Module.Path
		}
	}
	pkgPath := func(h harness) string {
		if h.PkgDir == "." {
			return modPath
		}
		return modPath + "/" + h.PkgDir
	}

	var jobs []job
	for _, h := range mine {
		jobs = append(jobs, expand(h, tier)...)
	}
	results := make([]jobResult, len(jobs))
	eng.Tokens = make(chan struct{}, par)
	var wg sync.WaitGroup
	for k := range jobs {
		wg.Add(1)
		go func(k int) {
			defer wg.Done()
			j := jobs[k]
			tj := time.Now()
			unwind, _ := strconv.Atoi(opt(j.h, tier, "unwind", "0"))
			to, _ := strconv.Atoi(opt(j.h, tier, "timeout", "0"))
			maxp, _ := strconv.Atoi(opt(j.h, tier, "maxpaths", "0"))
			dl, _ := strconv.Atoi(opt(j.h, tier, "deadline", "0"))
			split, _ := strconv.Atoi(opt(j.h, tier, "split", "0"))
			cfg := symgo.HarnessCfg{Pkg: pkgPath(j.h), Func: j.h.Func, IntMode: opt(j.h, tier, "mode", "bv") == "int",
				Solver: opt(j.h, tier, "solver", "z3"), Unwind: unwind, TimeoutMs: to, Params: j.params, Tier: tier,
				MaxPaths: maxp, Deadline: time.Duration(dl) * time.Second, Label: j.label, Split: split, StopOnFinding: j.h.Witness == ""}
			var ex *symgo.Explorer
			var err error
			if opt(j.h, tier, "engine", "symgo") == "gobmc" {
				ex, err = runBMC(eng, cfg, j, tier)
			} else {
				ex, err = eng.Run(cfg)
			}
			results[k] = jobResult{job: j, ex: ex, err: err, wall: time.Since(tj)}
			if ex != nil && len(ex.Findings) > 0 && j.h.Witness == "" {
				// a violation decides the check: the other instances stop
				atomic.StoreInt32(&eng.Stop, 1)
				stopAll()
			}
		}(k)
	}
	wg.Wait()

	// ---- verdict ----
	var violations, knownLines, inconcl []string
	var replayed int
	replayDir := filepath.Join(outDir, "replay", prop)
	os.MkdirAll(replayDir, 0o755)
	old, _ := filepath.Glob(filepath.Join(replayDir, "*.json"))
	for _, f := range old {
		os.Remove(f)
	}
	nrep := 0
	for _, r := range results {
		if r.err != nil {
			inconcl = append(inconcl, fmt.Sprintf("%s: %v", r.job.label, r.err))
			continue
		}
		for _, ic := range r.ex.Inconcl {
			inconcl = append(inconcl, fmt.Sprintf("%s: %s: %s", r.job.label, ic.Kind, ic.Msg))
		}
		kf, isWitness := open[r.job.h.Witness]
		if isWitness && len(r.ex.Findings) == 0 && len(r.ex.Inconcl) == 0 {
			fmt.Printf("NOTE property=%s known finding %s no longer reproduces (witness query unsat)\n", prop, kf.ID)
		}
		for _, f := range r.ex.Findings {
			path := filepath.Join(replayDir, fmt.Sprintf("%d.json", nrep))
			nrep++
			writeReplay(path, f, r.job, open)
			ok := true
			out := ""
			if opt(r.job.h, tier, "replay", "native") == "native" && f.Kind != "cover" && f.Kind != "schedule" {
				ok, out = replayFile(path, hs, pkgNames)
				replayed++
			}
			if !ok {
				inconcl = append(inconcl, fmt.Sprintf("%s: counterexample for %q did not reproduce natively (engine/stub disagreement)", r.job.label, f.Msg))
				if os.Getenv("VERIF_DEBUG") != "" {
					fmt.Fprintln(os.Stderr, out)
				}
				continue
			}
			if isWitness {
				knownLines = append(knownLines, fmt.Sprintf("KNOWN-FINDING: property=%s %s [%s; witness %s: %s; replay=%s]", prop, kf.What, kf.ID, r.job.label, f.Msg, path))
				continue
			}
			violations = append(violations, fmt.Sprintf("VIOLATION property=%s replay=%s harness=%s kind=%s msg=%q model=%s", prop, path, r.job.label, f.Kind, f.Msg, compactModel(f.Model)))
		}
		// vacuity: every harness must reach at least one obligation
		if r.ex.Obligations == 0 && len(r.ex.Inconcl) == 0 && !r.ex.Abandoned && atomic.LoadInt32(&eng.Stop) == 0 {
			inconcl = append(inconcl, fmt.Sprintf("%s: vacuous (no obligation reached)", r.job.label))
		}
	}
	for _, l := range knownLines {
		fmt.Println(l)
	}
	for _, l := range violations {
		fmt.Println(l)
	}
	for _, l := range inconcl {
		fmt.Printf("INCONCLUSIVE property=%s %s\n", prop, l)
	}
	writeEvidence(prop, tier, seed, results, eng, time.Since(t0), len(violations), inconcl, map[string]interface{}{
		"load_s": loadTime.Seconds(), "replays_run": replayed, "known_findings_reproduced": len(knownLines)})
	fmt.Printf("vcheck %s tier=%s: %d harness instances, %d violations, %d known findings, %d inconclusive, %.1fs\n",
		prop, tier, len(jobs), len(violations), len(knownLines), len(inconcl), time.Since(t0).Seconds())
	switch {
	case len(violations) > 0:
		return 1
	case len(inconcl) > 0:
		return 2
	}
	return 0
}

func compactModel(m map[string]string) string {
	var ks []string
	for k := range m {
		ks = append(ks, k)
	}
	sort.Strings(ks)
	var sb strings.Builder
	for n, k := range ks {
		if n > 0 {
			sb.WriteByte(',')
		}
		if n >= 12 {
			sb.WriteString("…")
			break
		}
		fmt.Fprintf(&sb, "%s=%s", k, m[k])
	}
	return sb.String()
}

func writeReplay(path string, f *symgo.Finding, j job, open map[string]knownFinding) {
	var openIDs []string
	for id := range open {
		openIDs = append(openIDs, id)
	}
	sort.Strings(openIDs)
	rec := map[string]interface{}{
		"harness": j.h.Func, "label": j.label, "kind": f.Kind, "msg": f.Msg, "pos": f.Pos, "model": f.Model,
		"params": j.params, "tier": f.Tier, "open_findings": openIDs, "harness_dir": j.h.Dir, "trail": f.Trail,
	}
	b, _ := json.MarshalIndent(rec, "", " ")
	os.WriteFile(path, b, 0o644)
}

// replayFile compiles the harness natively against the current repository
// (go test -overlay) and runs it on the recorded assignment.
func replayFile(path string, hs []harness, pkgNames map[string]string) (bool, string) {
	b, err := os.ReadFile(path)
	if err != nil {
		return false, err.Error()
	}
	var rec struct {
		Harness string `json:"harness"`
		Kind    string `json:"kind"`
		Msg     string `json:"msg"`
		Dir     string `json:"harness_dir"`
	}
	if err := json.Unmarshal(b, &rec); err != nil {
		return false, err.Error()
	}
	dir := rec.Dir
	if dir == "" {
		for _, h := range hs {
			if h.Func == rec.Harness {
				dir = h.Dir
			}
		}
	}
	tmp, err := os.MkdirTemp("", "vcheck-replay-")
	if err != nil {
		return false, err.Error()
	}
	defer os.RemoveAll(tmp)
	pkgDir := filepath.Join(repoDir, pkgDirOf(dir))
	repl := map[string]string{}
	files, _ := filepath.Glob(filepath.Join(verifDir, "harness", dir, "*.go"))
	var hmap strings.Builder
	for _, f := range files {
		repl[filepath.Join(pkgDir, filepath.Base(f))] = f
	}
	for _, h := range hs {
		if h.Dir == dir {
			fmt.Fprintf(&hmap, "\t%q: %s,\n", h.Func, h.Func)
		}
	}
	nat := filepath.Join(tmp, "native.go")
	os.WriteFile(nat, tmpl("intrinsics_native.go.txt", pkgNames[dir], ""), 0o644)
	repl[filepath.Join(pkgDir, "zz_verif_intrinsics.go")] = nat
	// helper directories the harness directory depends on ("with="): their
	// files and native intrinsics are overlaid into their own packages
	extra := map[string]bool{}
	for changed := true; changed; {
		changed = false
		for _, h := range hs {
			if w := h.Opts["with"]; w != "" && (h.Dir == dir || extra[h.Dir]) && w != dir && !extra[w] {
				extra[w] = true
				changed = true
			}
		}
	}
	for w := range extra {
		wdir := filepath.Join(repoDir, pkgDirOf(w))
		wfiles, _ := filepath.Glob(filepath.Join(verifDir, "harness", w, "*.go"))
		for _, f := range wfiles {
			repl[filepath.Join(wdir, filepath.Base(f))] = f
		}
		wnat := filepath.Join(tmp, "native_"+w+".go")
		os.WriteFile(wnat, tmpl("intrinsics_native.go.txt", pkgNames[w], ""), 0o644)
		repl[filepath.Join(wdir, "zz_verif_intrinsics.go")] = wnat
	}
	drv := filepath.Join(tmp, "replay_test.go")
	os.WriteFile(drv, tmpl("replay_test.go.txt", pkgNames[dir], hmap.String()), 0o644)
	repl[filepath.Join(pkgDir, "zz_verif_replay_test.go")] = drv
	ov, _ := json.Marshal(map[string]interface{}{"Replace": repl})
	ovPath := filepath.Join(tmp, "overlay.json")
	os.WriteFile(ovPath, ov, 0o644)
	abs, _ := filepath.Abs(path)
	cmd := exec.Command("go", "test", "-v", "-vet=off", "-count=1", "-run", "^TestVerifReplay$", "-timeout", "120s", "-overlay", ovPath, "./"+pkgDirOf(dir))
	cmd.Dir = repoDir
	cmd.Env = append(os.Environ(), "GOFLAGS=-mod=readonly", "GOPROXY=off", "GOSUMDB=off", "GOTOOLCHAIN=local", "VERIF_REPLAY="+abs)
	outb, _ := cmd.CombinedOutput()
	out := string(outb)
	// only what happens before the first failed assumption counts: natively a
	// failed assertion does not end the run, so a later assumption may fail on
	// the same values without invalidating the reproduction
	if i := strings.Index(out, "VERIF-ASSUME-FAILED"); i >= 0 {
		out = out[:i]
	}
	switch rec.Kind {
	case "assert":
		if strings.Contains(out, "VERIF-ASSERT-FAILED: "+rec.Msg+"\n") {
			return true, out
		}
		// The native twin of a harness may observe the same fault through
		// another of the harness's obligations (it sees the real collaborators,
		// the symbolic side their models): the counterexample reproduces when
		// the real build fails any assertion of this harness on these values
		// before the first failed assumption.
		return strings.Contains(out, "VERIF-ASSERT-FAILED: "), out
	case "panic":
		return strings.Contains(out, "VERIF-PANIC: ") || strings.Contains(out, "panic: "), out
	}
	return false, out
}

func writeEvidence(prop, tier string, seed int, results []jobResult, eng *symgo.Engine, wall time.Duration, violations int, inconcl []string, extra map[string]interface{}) {
	cov := map[string]interface{}{}
	var paths, decisions, obligations, discharged, trivial, infeasible, unknownBr, crossDis, bmcStates, bmcTrans int
	covered := map[string]bool{}
	stubbed := map[string]bool{}
	var samples []interface{}
	var perHarness []map[string]interface{}
	for _, r := range results {
		if r.ex == nil {
			continue
		}
		paths += r.ex.Paths
		decisions += r.ex.Decisions
		obligations += r.ex.Obligations
		discharged += r.ex.Discharged
		trivial += r.ex.Trivial
		infeasible += r.ex.PathsInfeas
		unknownBr += r.ex.UnknownBranch
		crossDis += r.ex.CrossDisagree
		bmcStates += r.ex.BMCStates
		bmcTrans += r.ex.BMCTransitions
		for k := range r.ex.Covered {
			covered[k] = true
		}
		for k := range r.ex.Stubbed {
			stubbed[k] = true
		}
		for n, s := range r.ex.Samples {
			if n < 2 && len(samples) < 12 {
				samples = append(samples, map[string]interface{}{"harness": r.job.label, "obligation": s})
			}
		}
		var reached []string
		for k, n := range r.ex.Reached {
			reached = append(reached, fmt.Sprintf("%s×%d", k, n))
		}
		sort.Strings(reached)
		perHarness = append(perHarness, map[string]interface{}{
			"harness": r.job.label, "options": r.job.h.Opts, "paths": r.ex.Paths, "infeasible_paths": r.ex.PathsInfeas,
			"decisions": r.ex.Decisions, "obligations": r.ex.Obligations, "discharged": r.ex.Discharged,
			"trivially_true": r.ex.Trivial, "findings": len(r.ex.Findings), "reached": reached, "wall_s": r.wall.Seconds(),
			"if_conversions": r.ex.Merges, "workers": r.ex.Workers, "abandoned_after_a_finding_elsewhere": r.ex.Abandoned,
		})
	}
	if len(samples) == 0 {
		samples = append(samples, "no obligation was generated")
	}
	keys := func(m map[string]bool) []string {
		var ks []string
		for k := range m {
			ks = append(ks, k)
		}
		sort.Strings(ks)
		return ks
	}
	queries := map[string]interface{}{}
	totalQ := 0
	if eng != nil {
		for k, n := range eng.Stats.Queries {
			queries[k] = map[string]interface{}{"queries": n, "time_s": eng.Stats.Time[k].Seconds()}
			totalQ += n
		}
		queries["unknown_answers"] = eng.Stats.Unknown
		queries["error_answers"] = eng.Stats.Errors
	}
	cov["states"] = paths + decisions + bmcStates
	cov["transitions"] = paths + decisions + bmcTrans
	cov["bmc_thread_dag_nodes"] = bmcStates
	cov["bmc_thread_dag_edges"] = bmcTrans
	if paths+decisions+bmcStates == 0 {
		cov["states"], cov["transitions"] = 1, 1
	}
	cov["traces_validated_against_impl"] = extra["replays_run"]
	if cov["traces_validated_against_impl"] == nil {
		cov["traces_validated_against_impl"] = 0
	}
	cov["samples"] = samples
	cov["evaluations"] = totalQ
	cov["distinct_nontrivial"] = discharged - trivial
	cov["rule"] = "one evaluation = one SMT query (branch feasibility or obligation); non-trivial = an obligation whose negation was sent to the solver (not folded to true by the term simplifier) and answered unsat"
	cov["paths"] = paths
	cov["infeasible_paths"] = infeasible
	cov["branch_decisions"] = decisions
	cov["obligations"] = obligations
	cov["discharged"] = discharged
	cov["obligations_trivially_true"] = trivial
	cov["unknown_branch_feasibility"] = unknownBr
	cov["second_solver_disagreements"] = crossDis
	cov["functions_encoded"] = keys(covered)
	cov["functions_stubbed_or_modelled"] = keys(stubbed)
	cov["solver_queries"] = queries
	cov["harnesses"] = perHarness
	if inconcl == nil {
		inconcl = []string{}
	}
	cov["inconclusive"] = inconcl
	cov["exhaustive"] = len(inconcl) == 0
	for k, v := range extra {
		cov[k] = v
	}
	ev := map[string]interface{}{
		"property_id": prop, "tier": tier, "seed": seed, "level": "model_checking", "coverage": cov,
		"assumptions": assumptionsFor(prop), "wall_s": wall.Seconds(), "violations": violations,
	}
	os.MkdirAll(filepath.Join(outDir, "evidence"), 0o755)
	b, _ := json.MarshalIndent(ev, "", " ")
	os.WriteFile(filepath.Join(outDir, "evidence", prop+".json"), b, 0o644)
}

// assumptionsFor reads the per-property assumptions (bounds, stubs, what is
// outside the claim) from /verif/harness/assumptions.json.
func assumptionsFor(prop string) []string {
	out := []string{
		"bounded symbolic execution of go/ssa built from /repo's working tree at run time; verdicts hold for all values inside the bounds stated per harness (see coverage.harnesses[].options and the harness source), nothing is claimed outside them",
		"trusted: go/ssa construction, the symgo interpreter (fork of x/tools go/ssa/interp), the SMT encoding, z3/cvc5, and the listed stubs/models",
		"map iteration follows insertion order (Go leaves it unspecified)",
	}
	b, err := os.ReadFile(filepath.Join(verifDir, "harness", "assumptions.json"))
	if err != nil {
		return out
	}
	var m map[string][]string
	if json.Unmarshal(b, &m) == nil {
		out = append(out, m[prop]...)
	}
	return out
}

func dumpTrees(tr *symgo.TreeResult) {
	for _, name := range tr.Order {
		t := tr.Templates[name]
		fmt.Printf("== thread %s: %d paths\n", name, len(t.Paths))
		for k, p := range t.Paths {
			if k >= 6 {
				fmt.Println("   ...")
				break
			}
			var parts []string
			for _, e := range p.Events {
				s := e.Kind
				if e.Obj != "" {
					s += "(" + e.Obj + ")"
				}
				if e.Kind == "select" {
					s += fmt.Sprintf("%v->%d%s", e.Cases, e.Choice, e.Msg)
				}
				if e.Kind == "spawn" {
					s += "(" + e.Template + ")"
				}
				if e.Kind == "recv" || e.Kind == "acas" {
					s += fmt.Sprintf("=%d", e.Choice)
				}
				if e.Kind == "tau" && e.Guard != nil {
					s += "[" + clipS(e.Guard.String(), 60) + "]"
				}
				if e.Kind == "fail" || e.Kind == "panic" {
					s += ":" + e.Msg
				}
				parts = append(parts, s)
			}
			fmt.Printf("   %d: %s\n", k, strings.Join(parts, " ; "))
		}
	}
	for n, o := range tr.Objects {
		fmt.Printf("obj %s %+v\n", n, *o)
	}
}

func clipS(s string, n int) string {
	if len(s) > n {
		return s[:n] + "…"
	}
	return s
}

// runBMC decides a concurrent harness: thread trees are extracted by the
// symbolic executor, then the product is model-checked with the schedule as
// solver variables.
func runBMC(eng *symgo.Engine, cfg symgo.HarnessCfg, j job, tier string) (*symgo.Explorer, error) {
	eng.Tokens <- struct{}{}
	defer func() { <-eng.Tokens }()
	cfg.MaxEvents, _ = strconv.Atoi(opt(j.h, tier, "maxevents", "60"))
	cfg.MaxRecv, _ = strconv.Atoi(opt(j.h, tier, "maxrecv", "0"))
	if cfg.MaxRecv == 0 {
		cfg.MaxRecv = j.params["N"]
	}
	if opt(j.h, tier, "autoshared", "0") == "1" {
		// pass 1: which pre-existing memory do goroutines write to?
		cfg.Discover = true
		tr0, err := eng.ExtractTrees(cfg)
		if err != nil {
			return nil, err
		}
		cfg.Discover = false
		cfg.AutoShared = tr0.Written
	}
	tr, err := eng.ExtractTrees(cfg)
	if err != nil {
		return nil, err
	}
	ex := tr.Ex
	if tr.Opaque && os.Getenv("VERIF_PROGRESS") != "" {
		fmt.Fprintf(os.Stderr, "[%s] shared memory of non-integer type: only the race and cut queries are meaningful\n", j.label)
	}
	if len(ex.Inconcl) > 0 {
		return ex, nil
	}
	inst := map[string]int{}
	for _, kv := range strings.Split(opt(j.h, tier, "inst", ""), ",") {
		if k, v, ok := strings.Cut(kv, ":"); ok {
			inst[k], _ = strconv.Atoi(v)
		}
	}
	b := symgo.NewBMC(tr, inst)
	if p := os.Getenv("VERIF_BMCLOG"); p != "" {
		os.WriteFile(p+".dag.txt", []byte(b.Dump()), 0o644)
	}
	K := b.K
	if v, _ := strconv.Atoi(opt(j.h, tier, "steps", "0")); v > 0 {
		K = v
	}
	to, _ := strconv.Atoi(opt(j.h, tier, "bmctimeout", "900"))
	solver := opt(j.h, tier, "bmcsolver", "z3")
	var queries []string
	for _, q := range strings.Split(opt(j.h, tier, "queries", "cut,bad,deadlock"), ",") {
		if q == "bad" {
			// one query per assertion label (smaller cones, run in parallel)
			for _, l := range b.PrimitiveLabels() {
				queries = append(queries, "bad:prim:"+l)
			}
			for _, l := range b.Labels() {
				queries = append(queries, "bad:"+l)
			}
			continue
		}
		queries = append(queries, q)
	}
	type qr struct {
		q     string
		r     string
		trace []string
		d     time.Duration
	}
	out := make([]qr, len(queries))
	var wg sync.WaitGroup
	ctx, cancelAll := context.WithCancel(stopCtx)
	defer cancelAll()
	var violated int32
	for qi, q := range queries {
		wg.Add(1)
		go func(qi int, q string) {
			defer wg.Done()
			// at most bmcSlots solver processes at a time over all harness
			// instances (each can take a few GB on the 64-bit models)
			bmcSlots <- struct{}{}
			defer func() { <-bmcSlots }()
			if ctx.Err() != nil {
				out[qi] = qr{q, "unknown", nil, 0}
				return
			}
			r, trace, d := b.Solve(ctx, q, K, time.Duration(to)*time.Second, solver)
			out[qi] = qr{q, r.String(), trace, d}
			if r.String() == "sat" && q != "cut" {
				// a violation decides the check: the remaining queries are abandoned
				atomic.StoreInt32(&violated, 1)
				cancelAll()
			}
		}(qi, q)
	}
	wg.Wait()
	for _, o := range out {
		if o.r == "unknown" && (atomic.LoadInt32(&violated) == 1 || stopCtx.Err() != nil) {
			ex.Abandoned = stopCtx.Err() != nil && atomic.LoadInt32(&violated) == 0
			continue // abandoned after a violation was found
		}
		ex.Obligations++
		if os.Getenv("VERIF_PROGRESS") != "" {
			fmt.Fprintf(os.Stderr, "[%s] bmc query %s: %s in %.1fs (K=%d, %s)\n", j.label, o.q, o.r, o.d.Seconds(), K, b.Describe())
		}
		ex.Samples = append(ex.Samples, fmt.Sprintf("BMC query %q over %s, K=%d steps: %s in %.1fs", o.q, b.Describe(), K, o.r, o.d.Seconds()))
		switch o.r {
		case "unsat":
			ex.Discharged++
		case "sat":
			qk := o.q
			if strings.HasPrefix(qk, "bad:") {
				qk = "bad"
			}
			if strings.HasPrefix(qk, "growth:") {
				qk = "growth"
			}
			msg := map[string]string{"bad": "assertion failure or misuse of a channel/mutex/WaitGroup under some schedule", "deadlock": "deadlock or goroutine left behind under some schedule",
				"cut": "a bound of the model is too small (thread path, receive or instance bound reachable)", "growth": "free capacity is not used: a released hit has to wait although fewer than max-workers hits are in flight",
				"race": "data race: two goroutines can access the same variable at the same time, at least one writing"}[qk]
			last := ""
			if len(o.trace) > 0 {
				last = o.trace[len(o.trace)-1]
			}
			for _, l := range o.trace {
				if strings.HasPrefix(l, "** ") {
					last = l[3:]
					break
				}
			}
			if o.q == "cut" {
				ex.Inconcl = append(ex.Inconcl, symgo.Inconclusive{Kind: "bound", Msg: msg + ": " + last})
				continue
			}
			ex.Findings = append(ex.Findings, &symgo.Finding{Harness: j.label, Kind: "schedule", Msg: o.q + ": " + msg + " — " + last,
				Model: map[string]string{"schedule": strings.Join(o.trace, "\n")}, Params: j.params, Tier: tier})
		default:
			ex.Inconcl = append(ex.Inconcl, symgo.Inconclusive{Kind: "solver-unknown", Msg: "BMC query " + o.q + " not decided within the time limit"})
		}
	}
	ex.BMCStates, ex.BMCTransitions = b.Size()
	return ex, nil
}
