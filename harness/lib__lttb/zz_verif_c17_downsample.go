package lttb

import "errors"

// C17 (DS) — Downsample's bucket arithmetic for a concrete threshold T and a
// SYMBOLIC count in (T, Cmax]. The iterator is a chunk model: a request for k
// points is answered with one representative point per chunk (two for the
// first request, which the algorithm splits into "first point" and "rest"),
// and the model records the index range [start, start+k) each representative
// stands for (a request that exceeds what is left delivers what is left, as a
// real iterator does). Obligations: every delivered chunk is non-empty, the
// iterator is not exhausted before the last bucket, the result has exactly T points
// whose index ranges are strictly increasing, starts with index 0 and ends
// with index count-1; no run-time panic (empty bucket / empty current).
//
//verif:harness solver=cvc5 timeout=120000 param.T=3..6 thorough.param.T=3..6 param.E=4 thorough.param.E=5 thorough.deadline=3000 unwind=64 split=-1
func verif_harness_C17_downsample() {
	T := verif_param("T")
	cmax := 1
	for e := verif_param("E"); e > 0; e-- {
		cmax *= 10 // Cmax = 10^E
	}
	count := verif_nondet_int("count")
	verif_assume(count > T && count <= cmax)

	type chunk struct{ start, k int }
	var chunks []chunk
	pos := 0
	final := false
	it := func(k int) ([]Point, error) {
		j := len(chunks)
		if j == T-1 {
			// the last request asks for "everything that is left" and may
			// exceed it; a real iterator returns what it has
			final = true
			rem := count - pos
			verif_assert(rem >= 0, "C17.ds.not-overdrawn")
			chunks = append(chunks, chunk{pos, rem})
			if rem == 0 {
				return nil, nil
			}
			pos = count
			return []Point{{X: float64(j)}}, nil
		}
		verif_assert(k >= 1, "C17.ds.chunk-request-positive")
		// a real iterator delivers what it has when asked for more (the
		// request for the last bucket overshoots by design)
		if rem := count - pos; rem < k {
			k = rem
		}
		verif_assert(k >= 1, "C17.ds.chunk-non-empty")
		if j < T-2 {
			verif_assert(pos+k < count, "C17.ds.not-exhausted-before-last-bucket")
		}
		chunks = append(chunks, chunk{pos, k})
		pos += k
		if j == 0 {
			verif_assert(k >= 2, "C17.ds.first-request-has-first-point-and-a-bucket")
			return []Point{{X: 0}, {X: 0.5}}, nil
		}
		return []Point{{X: float64(j)}}, nil
	}

	out, err := Downsample(count, T, it)
	verif_assert(err == nil, "C17.ds.no-error")
	verif_assert(final, "C17.ds.last-point-requested")
	verif_assert(len(out) == T, "C17.ds.exactly-threshold-points")
	if err != nil || len(out) != T || len(chunks) != T {
		return
	}
	// index range represented by each output point
	lo := make([]int, T)
	hi := make([]int, T)
	for i, p := range out {
		switch {
		case p.X == 0:
			lo[i], hi[i] = 0, 0
		case p.X == 0.5:
			lo[i], hi[i] = 1, chunks[0].k-1
		default:
			c := chunks[int(p.X)]
			lo[i], hi[i] = c.start, c.start+c.k-1
		}
	}
	verif_assert(lo[0] == 0 && hi[0] == 0, "C17.ds.first-point-kept")
	ordered := true
	for i := 1; i < T; i++ {
		ordered = verif_and(ordered, verif_and(lo[i] <= hi[i], hi[i-1] < lo[i]))
	}
	verif_assert(ordered, "C17.ds.subsequence-strictly-increasing")
	verif_assert(hi[T-1] == count-1, "C17.ds.last-point-kept")
}

// C17 (DS) — the pass-through and rejection cases, symbolic count and threshold.
//
//verif:harness unwind=16
func verif_harness_C17_downsample_edges() {
	count := verif_nondet_int("count")
	threshold := verif_nondet_int("threshold")
	verif_assume(count >= 0 && count <= 1000000 && threshold >= 0 && threshold <= 1000000)
	requested := -1
	marker := []Point{{X: 42}}
	it := func(k int) ([]Point, error) {
		verif_assert(requested == -1, "C17.edges.single-request")
		requested = k
		return marker, nil
	}
	if threshold >= 3 && threshold < count {
		return // covered by verif_harness_C17_downsample
	}
	out, err := Downsample(count, threshold, it)
	if threshold == 0 || threshold >= count {
		verif_assert(err == nil && requested == count && len(out) == 1 && out[0].X == 42, "C17.edges.unchanged-at-or-below-threshold")
		return
	}
	// 1 <= threshold <= 2 < count
	verif_assert(err != nil && out == nil && requested == -1, "C17.edges.threshold-1-or-2-rejected")
	_ = errors.New
}
