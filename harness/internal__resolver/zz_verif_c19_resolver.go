package resolver

// C19 (N) — resolver addresses: ":53" is added iff the address has no port,
// the host must be an IP literal and the port a 16-bit number; accepted
// addresses are kept in order. Inputs: every combination of the listed host,
// separator and port forms (address syntax itself is the net package's).
//
//verif:harness unwind=40
func verif_harness_C19_resolver_addrs() {
	hosts := []struct {
		s    string
		isIP bool
	}{{"1.2.3.4", true}, {"127.0.0.1", true}, {"[::1]", true}, {"example.org", false}, {"1.2.3", false}, {"", false}}
	ports := []struct {
		s  string
		ok bool
	}{{"", true}, {":53", true}, {":0", true}, {":65535", true}, {":65536", false}, {":-1", false}, {":dns", false}, {":", false}, {":5:3", false}}
	h := hosts[verif_choose("host", len(hosts))]
	p := ports[verif_choose("port", len(ports))]
	first := "8.8.8.8:53"
	addr := h.s + p.s
	out, err := normalizeAddrs([]string{first, addr})
	// "[::1]" without a port contains colons, so no default port is added and it is not host:port
	bare6 := h.s == "[::1]" && p.s == ""
	if !h.isIP || !p.ok || bare6 {
		verif_assert(err != nil, "C19.resolvers.bad-address-rejected")
		return
	}
	verif_assert(err == nil, "C19.resolvers.good-address-accepted")
	if err != nil {
		return
	}
	want := addr
	if p.s == "" {
		want += ":53"
	}
	verif_assert(len(out) == 2 && out[0] == first && out[1] == want, "C19.resolvers.default-port-53-and-order")
}

// C18 (3b) — the custom resolver rotates over its addresses: from an
// arbitrary counter state the next dial uses addrs[(idx+1) mod len].
//
//verif:harness mode=int param.k=1..4 unwind=16
func verif_harness_C18_resolver_rotation() {
	k := verif_param("k")
	addrs := []string{"a", "b", "c", "d"}[:k]
	idx := verif_nondet_u64("idx")
	r := &resolver{addrs: addrs, idx: idx}
	got := r.address()
	verif_assert(r.idx == idx+1, "C18.resolver.counter-advances-by-one")
	want := (idx + 1) % uint64(k)
	for j := 0; j < k; j++ {
		if want == uint64(j) {
			verif_assert(got == addrs[j], "C18.resolver.strict-rotation")
		}
	}
}

// C18 (4) — two goroutines resolve through the custom resolver at the same
// time: the rotation counter is only touched atomically (no data race), and
// the two dials get different addresses.
//
//verif:harness engine=gobmc unwind=16 replay=none autoshared=1 queries=cut,bad,race,deadlock bmctimeout=600
func verif_harness_C18_resolver_race() {
	r := &resolver{addrs: []string{"a", "b"}}
	done := make(chan struct{})
	verif_chan_name(done, "done")
	for w := 0; w < 2; w++ {
		go func() {
			if r.address() == "a" {
				verif_ghost_add("got_a", 1)
			} else {
				verif_ghost_add("got_b", 1)
			}
			done <- struct{}{}
		}()
	}
	<-done
	<-done
	verif_assert(verif_ghost_add("got_a", 0) == 1 && verif_ghost_add("got_b", 0) == 1, "C18.resolver.concurrent-dials-rotate")
}
