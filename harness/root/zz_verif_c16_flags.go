package main

import (
	"net/http"
	"time"

	vegeta "github.com/tsenart/vegeta/v12/lib"
)

// C16 — the flag value parsers never panic on any ASCII byte string of length L.
//
//verif:harness param.L=0..2 param.P=0..4 unwind=48 deadline=1500 thorough.deadline=1500
func verif_harness_C16_flag_parsers_bytes() {
	b := verif_nondet_bytes("v", verif_param("L"))
	for _, c := range b {
		verif_assume(c < 0x80)
	}
	v := string(b)
	switch verif_param("P") {
	case 0:
		r := vegeta.Rate{Freq: 50, Per: time.Second}
		_ = (&rateFlag{&r}).Set(v)
	case 1:
		_ = headers{http.Header{}}.Set(v)
	case 2:
		m := map[string][]string{}
		_ = (&connectToFlag{addrMap: &m}).Set(v)
	case 3:
		var n int64
		_ = (&maxBodyFlag{&n}).Set(v)
	case 4:
		var d time.Duration
		_ = (&dnsTTLFlag{&d}).Set(v)
	}
	verif_reach("done")
}

// C16 — the -rate parser alone on longer values (a count, a slash and a
// duration need four bytes at least: "1/0s").
//
//verif:harness param.L=3..4 unwind=48 deadline=1500 thorough.deadline=1500
func verif_harness_C16_rate_parser_bytes() {
	b := verif_nondet_bytes("v", verif_param("L"))
	for _, c := range b {
		verif_assume(c < 0x80)
	}
	r := vegeta.Rate{Freq: 50, Per: time.Second}
	_ = (&rateFlag{&r}).Set(string(b))
	verif_reach("done")
}
