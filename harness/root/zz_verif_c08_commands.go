package main

import (
	"bytes"
	"io"
	"os"
	"time"

	vegeta "github.com/tsenart/vegeta/v12/lib"
	"github.com/tsenart/vegeta/v12/lib/plot"
)

var verifCmdResults = []vegeta.Result{
	{Attack: "a", Seq: 0, Code: 0, Timestamp: time.Unix(0, 1700000000000000001), Latency: 9 * time.Millisecond, Error: "dial: refused", Method: "GET", URL: "http://x/"},
	{Attack: "a", Seq: 1, Code: 200, Timestamp: time.Unix(0, 1700000000000000002), Latency: 0, BytesIn: 5, Body: []byte("hello"), Method: "GET", URL: "http://x/"},
	{Attack: "a", Seq: 2, Code: 503, Timestamp: time.Unix(0, 1700000000000000003), Latency: 2 * time.Second, BytesOut: 3, Error: "503 Service Unavailable", Method: "POST", URL: "http://y/"},
}

// verifGobLikeDecoder yields the given records the way the gob decoder does:
// only non-zero fields are transmitted, the others keep whatever the Result
// passed in already holds (so a caller must pass a fresh Result per record).
func verifGobLikeDecoder(recs []vegeta.Result) vegeta.Decoder {
	i := 0
	return func(r *vegeta.Result) error {
		if i >= len(recs) {
			return io.EOF
		}
		s := recs[i]
		i++
		if s.Attack != "" {
			r.Attack = s.Attack
		}
		if s.Seq != 0 {
			r.Seq = s.Seq
		}
		if s.Code != 0 {
			r.Code = s.Code
		}
		if !s.Timestamp.IsZero() {
			r.Timestamp = s.Timestamp
		}
		if s.Latency != 0 {
			r.Latency = s.Latency
		}
		if s.BytesOut != 0 {
			r.BytesOut = s.BytesOut
		}
		if s.BytesIn != 0 {
			r.BytesIn = s.BytesIn
		}
		if s.Error != "" {
			r.Error = s.Error
		}
		if len(s.Body) != 0 {
			r.Body = s.Body
		}
		if s.Method != "" {
			r.Method = s.Method
		}
		if s.URL != "" {
			r.URL = s.URL
		}
		return nil
	}
}

func verifCmdEnv(recs []vegeta.Result, out *[]byte) {
	verif_stub("github.com/tsenart/vegeta/v12.decoder", func(files []string) (vegeta.Decoder, io.Closer, error) {
		return verifGobLikeDecoder(recs), multiCloser{}, nil
	})
	verif_stub("github.com/tsenart/vegeta/v12.file", func(name string, create bool) (*os.File, error) { return nil, nil })
	verif_stub("(*os.File).Write", func(f *os.File, b []byte) (int, error) {
		*out = append(*out, b...)
		return len(b), nil
	})
	verif_stub("(*os.File).Close", func(f *os.File) error { return nil })
	verif_stub("os/signal.Notify", func(c chan<- os.Signal, sig ...os.Signal) {})
}

func verifCmdRecords() []vegeta.Result {
	n := 1 + verif_choose("records", 3)
	first := verif_choose("first", 3)
	recs := make([]vegeta.Result, n)
	for k := range recs {
		recs[k] = verifCmdResults[(first+k)%3]
	}
	return recs
}

// C08/C13 — the encode command: whatever the input decoder yields (modelled
// with gob's "zero fields are not transmitted" behaviour), the output is
// byte-for-byte what encoding each record on its own produces, for the CSV and
// JSON targets, every record order and count 1..3.
//
//verif:harness unwind=64 replay=none
func verif_harness_C08_encode_command() {
	if !verif_is_symbolic_run() {
		return
	}
	recs := verifCmdRecords()
	var out []byte
	verifCmdEnv(recs, &out)
	to := []string{encodingJSON, encodingCSV}[verif_choose("to", 2)]
	verif_assert(encode([]string{"in"}, to, "out") == nil, "C08.encode.no-error")
	var want bytes.Buffer
	enc := vegeta.NewJSONEncoder(&want)
	if to == encodingCSV {
		enc = vegeta.NewCSVEncoder(&want)
	}
	for _, r := range recs {
		r := r
		enc.Encode(&r)
	}
	verif_assert(bytes.Equal(out, want.Bytes()), "C08.encode.output-is-exactly-the-input-records")
}

// C08/C09 — the encode command on an input that ends in an error (a truncated
// input stream): every record decoded before the error has reached the output
// in full, in order, when the command returns the error — the output holds
// exactly those records, byte for byte, and nothing of a later one.
//
//verif:harness unwind=64 replay=none
func verif_harness_C08_encode_command_input_error() { verifEncodeInputError() }

//verif:harness unwind=64 replay=none
func verif_harness_C09_encode_command_input_error() { verifEncodeInputError() }

func verifEncodeInputError() {
	if !verif_is_symbolic_run() {
		return
	}
	recs := verifCmdRecords()
	var out []byte
	verifCmdEnv(recs, &out)
	errTorn := io.ErrUnexpectedEOF
	good := verif_choose("records_before_the_error", len(recs)+1)
	verif_stub("github.com/tsenart/vegeta/v12.decoder", func(files []string) (vegeta.Decoder, io.Closer, error) {
		inner := verifGobLikeDecoder(recs[:good])
		return func(r *vegeta.Result) error {
			if err := inner(r); err != io.EOF {
				return err
			}
			return errTorn
		}, multiCloser{}, nil
	})
	to := []string{encodingJSON, encodingCSV}[verif_choose("to", 2)]
	verif_assert(encode([]string{"in"}, to, "out") == errTorn, "C09.encode.input-error-is-returned")
	var want bytes.Buffer
	enc := vegeta.NewJSONEncoder(&want)
	if to == encodingCSV {
		enc = vegeta.NewCSVEncoder(&want)
	}
	for _, r := range recs[:good] {
		r := r
		enc.Encode(&r)
	}
	verif_assert(bytes.Equal(out, want.Bytes()), "C09.encode.output-holds-exactly-the-records-decoded-before-the-error")
}

// C13 — the report command (histogram report): the report over what the
// combined decoder yields equals the report computed directly from the records.
//
//verif:harness unwind=64 replay=none
func verif_harness_C13_report_command() { verifReportCommand() }

// The same harness registered for C10 (the report command computes the same
// metrics as adding the records directly).
//
//verif:harness unwind=64 replay=none
func verif_harness_C10_report_command() { verifReportCommand() }

func verifReportCommand() {
	if !verif_is_symbolic_run() {
		return
	}
	recs := verifCmdRecords()
	var out []byte
	verifCmdEnv(recs, &out)
	verif_assert(report([]string{"in"}, "hist[0,1ms,1s]", "out", 0, "") == nil, "C13.report.no-error")
	var hist vegeta.Histogram
	hist.Buckets.UnmarshalText([]byte("[0,1ms,1s]"))
	for _, r := range recs {
		r := r
		hist.Add(&r)
	}
	var want bytes.Buffer
	vegeta.NewHistogramReporter(&hist).Report(&want)
	verif_assert(bytes.Equal(out, want.Bytes()), "C13.report.equals-the-report-over-the-records")
}

// C17 — the plot command hands every decoded result to the plot exactly as it
// was decoded (the plot itself is replaced by a recorder; its internals are the
// subject of the lib/plot and lib/lttb harnesses).
//
//verif:harness unwind=64 replay=none
func verif_harness_C17_plot_command() {
	if !verif_is_symbolic_run() {
		return
	}
	recs := verifCmdRecords()
	var out []byte
	verifCmdEnv(recs, &out)
	var got []vegeta.Result
	verif_stub("(*github.com/tsenart/vegeta/v12/lib/plot.Plot).Add", func(p *plot.Plot, r *vegeta.Result) error {
		got = append(got, *r)
		return nil
	})
	verif_stub("(*github.com/tsenart/vegeta/v12/lib/plot.Plot).Close", func(p *plot.Plot) {})
	verif_stub("(*github.com/tsenart/vegeta/v12/lib/plot.Plot).WriteTo", func(p *plot.Plot, w io.Writer) (int64, error) { return 0, nil })
	verif_assert(plotRun([]string{"in"}, 0, "title", "out") == nil, "C17.plot-command.no-error")
	verif_assert(len(got) == len(recs), "C17.plot-command.every-result-plotted-once")
	for k := 0; k < len(got) && k < len(recs); k++ {
		verif_assert(got[k].Equal(recs[k]), "C17.plot-command.result-as-decoded")
	}
}
