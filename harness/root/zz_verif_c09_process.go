package main

import (
	"errors"
	"os"

	vegeta "github.com/tsenart/vegeta/v12/lib"
	"github.com/tsenart/vegeta/v12/lib/prom"
)

// C09 / C20 — the attack command's result loop (processAttack): n results are
// waiting on the result channel (closed behind them, as the attacker does),
// 0..2 signals on the signal channel; the select picks among ready cases in
// every possible way. The encoder fails at an arbitrary call or never.
//   - results are encoded one call each, in arrival order, each observed by the
//     Prometheus metrics before it is written (C20: every result observed);
//   - after a failed Encode nothing more is written — the torn record stays
//     the tail of the output (C09) — and the error is returned;
//   - a first signal stops the attack and the loop keeps draining, a second
//     one ends it at once.
//
//verif:harness unwind=64 replay=none
func verif_harness_C09_process_attack() {
	if !verif_is_symbolic_run() {
		return
	}
	n := verif_choose("results", 4)
	nsig := verif_choose("signals", 3)
	failAt := verif_choose("encode_fails_at", 5) // 4: never
	withProm := verif_nondet_bool("prometheus")
	res := make(chan *vegeta.Result, 4)
	in := make([]*vegeta.Result, n)
	for k := range in {
		in[k] = &vegeta.Result{Seq: uint64(k), Code: 200}
		res <- in[k]
	}
	close(res)
	sig := make(chan os.Signal, 2)
	for k := 0; k < nsig; k++ {
		sig <- os.Interrupt
	}
	stops := 0
	verif_stub("(*github.com/tsenart/vegeta/v12/lib.Attacker).Stop", func(a *vegeta.Attacker) bool {
		stops++
		return stops == 1
	})
	var observed, encoded []*vegeta.Result
	verif_stub("(*github.com/tsenart/vegeta/v12/lib/prom.Metrics).Observe", func(pm *prom.Metrics, r *vegeta.Result) {
		observed = append(observed, r)
	})
	errDisk := errors.New("model: no space left on device")
	calls, failed := 0, false
	enc := vegeta.Encoder(func(r *vegeta.Result) error {
		verif_assert(!failed, "C09.attack.nothing-is-written-after-a-failed-write")
		if withProm {
			verif_assert(len(observed) == len(encoded)+1 && observed[len(observed)-1] == r, "C20.attack.result-observed-before-it-is-written")
		}
		k := calls
		calls++
		if k == failAt {
			failed = true
			return errDisk
		}
		encoded = append(encoded, r)
		return nil
	})
	var pm *prom.Metrics
	if withProm {
		pm = &prom.Metrics{}
	}
	err := processAttack(&vegeta.Attacker{}, res, enc, sig, pm)

	for k := range encoded {
		verif_assert(encoded[k] == in[k], "C09.attack.results-written-once-in-arrival-order")
	}
	if failed {
		verif_assert(err == errDisk, "C09.attack.write-error-is-returned")
		verif_assert(len(encoded) == failAt, "C09.attack.output-ends-with-the-failed-record")
	} else {
		verif_assert(err == nil, "C09.attack.clean-end")
		if stops < 2 {
			verif_assert(len(encoded) == n, "C09.attack.every-result-written-unless-interrupted-twice")
		}
	}
	if !withProm {
		verif_assert(len(observed) == 0, "C20.attack.no-observation-without-metrics")
	}
}
