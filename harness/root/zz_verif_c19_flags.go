package main

import (
	"net/http"
	"strconv"
	"strings"
	"time"

	vegeta "github.com/tsenart/vegeta/v12/lib"
)

// verifRateRef is an independent reading of the documented -rate grammar:
//
//	infinity | N | N/D   with D a Go duration or a bare unit (= one of it);
//	N = 0 means unlimited whatever D is.
//
// Number and duration syntax themselves are the library's (strconv, time).
func verifRateRef(v string) (freq int, per time.Duration, unlimited, ok bool) {
	if v == "infinity" {
		return 0, 0, true, true
	}
	num, dur := v, "1s"
	if i := strings.IndexByte(v, '/'); i >= 0 {
		num, dur = v[:i], v[i+1:]
	}
	n, err := strconv.Atoi(num)
	if err != nil {
		return 0, 0, false, false
	}
	if n == 0 {
		return 0, 0, true, true
	}
	for _, u := range []string{"ns", "us", "µs", "ms", "s", "m", "h"} {
		if dur == u {
			dur = "1" + u
		}
	}
	d, err := time.ParseDuration(dur)
	if err != nil {
		return 0, 0, false, false
	}
	return n, d, false, true
}

func verifCheckRate(v string) {
	rate := vegeta.Rate{Freq: 50, Per: time.Second} // the command's default
	f := rateFlag{&rate}
	err := f.Set(v)
	freq, per, unlimited, ok := verifRateRef(v)
	if !ok {
		verif_assert(err != nil, "C19.rate.malformed-rejected")
		return
	}
	verif_assert(err == nil, "C19.rate.well-formed-accepted")
	if err != nil {
		return
	}
	if unlimited {
		verif_assert(rate.Freq == 0, "C19.rate.zero-and-infinity-mean-unlimited")
		// unlimited rate demands -max-workers
		opts := &attackOpts{rate: rate, maxWorkers: vegeta.DefaultMaxWorkers}
		verif_assert(attack(opts) != nil, "C19.rate.unlimited-demands-max-workers")
		return
	}
	verif_assert(rate.Freq == freq && rate.Per == per, "C19.rate.N-per-D")
}

// C19 (R1) — every -rate value of L arbitrary ASCII bytes.
//
//verif:harness param.L=0..4 thorough.param.L=0..4 unwind=40 thorough.deadline=1500
func verif_harness_C19_rate_bytes() {
	L := verif_param("L")
	b := verif_nondet_bytes("v", L)
	for _, c := range b {
		verif_assume(c < 0x80)
	}
	verifCheckRate(string(b))
}

// C19 (R2) — structured values: a symbolic two-character count followed by
// each documented form of the unit part (bare units, multiples, fractions,
// compound durations, garbage), and the special words.
//
//verif:harness unwind=40
func verif_harness_C19_rate_forms() {
	units := []string{"", "/s", "/ms", "/us", "/µs", "/ns", "/m", "/h", "/1s", "/2m", "/1h30m", "/.5s", "/0.25m", "/10ms",
		"/", "/x", "/5", "/-1s", "/1 s", "/s/", "//s"}
	switch verif_choose("kind", 3) {
	case 0:
		verifCheckRate([]string{"infinity", "0", "0/1s", "0/x", "inf", "Infinity", " 0", "-0", "+5/s", "07/s", "1_0/s"}[verif_choose("word", 11)])
	case 1:
		n := verif_nondet_bytes("n", 2)
		verif_assume(n[0] >= '0' && n[0] <= '9' && n[1] >= '0' && n[1] <= '9')
		verifCheckRate(string(n) + units[verif_choose("unit", len(units))])
	case 2:
		n := verif_nondet_bytes("n", 1)
		verif_assume(n[0] < 0x80)
		verifCheckRate(string(n) + units[verif_choose("unit", len(units))])
	}
}

// C19 (S) — a rate's printed form parses back to the same rate.
//
//verif:harness unwind=40
func verif_harness_C19_rate_roundtrip() {
	freqs := []int{1, 7, 50, 1000, 123456, 2147483647}
	pers := []time.Duration{time.Nanosecond, 3 * time.Microsecond, time.Millisecond, 250 * time.Millisecond, time.Second,
		10 * time.Second, time.Minute, 90 * time.Second, 20 * time.Minute, time.Hour, 36 * time.Hour, 1500 * time.Millisecond}
	r := vegeta.Rate{Freq: freqs[verif_choose("freq", len(freqs))], Per: pers[verif_choose("per", len(pers))]}
	text := (&rateFlag{&r}).String()
	back := vegeta.Rate{Freq: 50, Per: time.Second}
	err := (&rateFlag{&back}).Set(text)
	verif_assert(err == nil && back == r, "C19.rate.printed-form-parses-back")
}

// C19 (H) — repeated -header flags accumulate, keep the key's case, trim
// blanks around key and value, and reject values without a key or value.
//
//verif:harness param.L=0..4 thorough.param.L=0..5 unwind=40
func verif_harness_C19_headers() {
	L := verif_param("L")
	b := verif_nondet_bytes("v", L)
	for _, c := range b {
		verif_assume(c < 0x80)
	}
	v := string(b)
	h := headers{http.Header{}}
	// an earlier flag with a key that may coincide
	verif_assert(h.Set("K: first") == nil, "C19.header.plain-accepted")
	err := h.Set(v)

	// reference: split at the first colon, trim white space
	i := strings.IndexByte(v, ':')
	key, val := "", ""
	if i >= 0 {
		key, val = strings.TrimSpace(v[:i]), strings.TrimSpace(v[i+1:])
	}
	if i < 0 || key == "" || val == "" {
		verif_assert(err != nil, "C19.header.malformed-rejected")
		verif_assert(len(h.Header) == 1 && len(h.Header["K"]) == 1, "C19.header.rejected-value-changes-nothing")
		return
	}
	verif_assert(err == nil, "C19.header.well-formed-accepted")
	got := h.Header[key]
	if key == "K" {
		verif_assert(len(got) == 2 && got[0] == "first" && got[1] == val, "C19.header.accumulates-in-order")
	} else {
		verif_assert(len(got) == 1 && got[0] == val, "C19.header.key-case-preserved-value-trimmed")
		verif_assert(len(h.Header["K"]) == 1, "C19.header.other-keys-untouched")
	}
}

// C19 (C) — -connect-to src:port:dst:port builds the documented mapping,
// repeated flags with the same source accumulate destinations in order, and
// anything that is not four colon-separated parts is rejected.
//
//verif:harness param.L=0..5 thorough.param.L=0..6 unwind=40
func verif_harness_C19_connect_to() {
	L := verif_param("L")
	b := verif_nondet_bytes("v", L)
	for _, c := range b {
		// host and port characters, and the separator
		verif_assume(c == ':' || c == 'a' || c == '1' || c == '.')
	}
	v := string(b)
	m := map[string][]string{"a:1": {"z:9"}}
	f := connectToFlag{addrMap: &m}
	err := f.Set(v)
	parts := strings.Split(v, ":")
	if len(parts) != 4 {
		verif_assert(err != nil, "C19.connect-to.wrong-arity-rejected")
		verif_assert(len(m) == 1 && len(m["a:1"]) == 1, "C19.connect-to.rejected-value-changes-nothing")
		return
	}
	verif_assert(err == nil, "C19.connect-to.four-parts-accepted")
	src, dst := parts[0]+":"+parts[1], parts[2]+":"+parts[3]
	got := m[src]
	if src == "a:1" {
		verif_assert(len(got) == 2 && got[0] == "z:9" && got[1] == dst, "C19.connect-to.same-source-accumulates-in-order")
	} else {
		verif_assert(len(got) == 1 && got[0] == dst, "C19.connect-to.maps-source-to-destination")
		verif_assert(len(m["a:1"]) == 1, "C19.connect-to.other-sources-untouched")
	}
}

// C19 (M, T) — -max-body and -dns-ttl: the documented special value -1 and
// the documented notations.
//
//verif:harness unwind=40
func verif_harness_C19_maxbody_dnsttl() {
	switch verif_choose("flag", 2) {
	case 0:
		cases := []struct {
			in   string
			want int64
			ok   bool
		}{{"-1", -1, true}, {"0", 0, true}, {"10", 10, true}, {"10 MB", 10 << 20, true}, {"10MB", 10 << 20, true}, {"10mb", 10 << 20, true},
			{"1KB", 1 << 10, true}, {"3 GB", 3 << 30, true}, {"1TB", 1 << 40, true}, {"128 B", 128, true},
			// the manual's own examples
			{"10240 g", 10 << 40, true}, {"2000", 2000, true}, {"1tB", 1 << 40, true}, {"5 peta", 5 << 50, true}, {"28 kilobytes", 28 << 10, true}, {"1 gigabyte", 1 << 30, true},
			// larger than int64: must not be stored wrapped
			{"18446744073709551615", 0, false}, {"9 EB", 0, false}}
		c := cases[verif_choose("case", len(cases))]
		n := int64(12345)
		err := (&maxBodyFlag{&n}).Set(c.in)
		if c.ok {
			verif_assert(err == nil && n == c.want, "C19.max-body.documented-notation")
		} else {
			verif_assert(err != nil, "C19.max-body.malformed-rejected")
		}
	case 1:
		cases := []struct {
			in   string
			want time.Duration
			ok   bool
		}{{"-1", -1, true}, {"0", 0, true}, {"0s", 0, true}, {"30s", 30 * time.Second, true}, {"5m", 5 * time.Minute, true}, {"-1s", -time.Second, true},
			{"1h30m", 90 * time.Minute, true}}
		c := cases[verif_choose("case", len(cases))]
		d := time.Duration(777)
		err := (&dnsTTLFlag{&d}).Set(c.in)
		if c.ok {
			verif_assert(err == nil && d == c.want, "C19.dns-ttl.documented-meaning")
		} else {
			verif_assert(err != nil, "C19.dns-ttl.malformed-rejected")
		}
	}
}
