package main

import (
	"io"
	"os"

	vegeta "github.com/tsenart/vegeta/v12/lib"
)

var verifFileNames = []string{"out.bin", "run[1].bin", "run1.bin", "a*.bin", "r?n.bin"}

type verifOpenCall struct {
	name string
	flag int
}

// verifFS models the file system at os.OpenFile (os.Open and os.Create are the
// real standard-library wrappers around it) and at filepath.Glob: every
// pattern matches two other existing files, so code that expands its
// arguments is seen to open something the caller did not name.
func verifFS(calls *[]verifOpenCall) {
	verif_stub("os.OpenFile", func(name string, flag int, perm os.FileMode) (*os.File, error) {
		*calls = append(*calls, verifOpenCall{name, flag})
		return nil, nil
	})
	verif_stub("path/filepath.Glob", func(pattern string) ([]string, error) {
		return []string{"run1.bin", "other.bin"}, nil
	})
}

// C08 — file(name, create): an output file is opened for writing, created when
// missing and truncated when it exists, so what the command writes is all the
// file holds afterwards (no tail of an earlier, longer file survives); an
// input file is opened read-only and never created or truncated. Exactly the
// named file is opened, once, whatever characters its name contains.
//
//verif:harness unwind=16 replay=none
func verif_harness_C08_file_open_modes() {
	if !verif_is_symbolic_run() {
		return
	}
	var calls []verifOpenCall
	verifFS(&calls)
	name := verifFileNames[verif_choose("name", len(verifFileNames))]
	create := verif_nondet_bool("create")
	_, err := file(name, create)
	verif_assert(err == nil, "C08.file.no-error")
	verif_assert(len(calls) == 1 && calls[0].name == name, "C08.file.opens-exactly-the-named-file-once")
	if len(calls) != 1 {
		return
	}
	flag := calls[0].flag
	access := flag & (os.O_RDONLY | os.O_WRONLY | os.O_RDWR)
	if create {
		verif_assert(access == os.O_WRONLY || access == os.O_RDWR, "C08.file.output-is-writable")
		verif_assert(flag&os.O_CREATE != 0, "C08.file.output-is-created-when-missing")
		verif_assert(flag&os.O_TRUNC != 0, "C08.file.output-is-truncated-so-no-old-tail-survives")
		verif_assert(flag&os.O_APPEND == 0 && flag&os.O_EXCL == 0, "C08.file.output-replaces-an-existing-file")
	} else {
		verif_assert(access == os.O_RDONLY && flag&(os.O_CREATE|os.O_TRUNC|os.O_APPEND) == 0, "C08.file.input-is-opened-read-only")
	}
}

// C13 — decoder(files): each named input is opened exactly once, in the order
// given and under exactly the name given (a name with glob characters is a
// name), each gets its own detected decoder, and the combined decoder yields
// every record of every input once.
//
//verif:harness unwind=32 replay=none
func verif_harness_C13_decoder_opens_each_named_input_once() {
	if !verif_is_symbolic_run() {
		return
	}
	var calls []verifOpenCall
	verifFS(&calls)
	n := 1 + verif_choose("inputs", 3)
	first := verif_choose("first_name", len(verifFileNames))
	files := make([]string, n)
	for k := range files {
		files[k] = verifFileNames[(first+k)%len(verifFileNames)]
	}
	detected := 0
	verif_stub("github.com/tsenart/vegeta/v12/lib.DecoderFor", func(r io.Reader) vegeta.Decoder {
		id := detected
		detected++
		done := false
		return func(res *vegeta.Result) error {
			if done {
				return io.EOF
			}
			done = true
			res.Seq = uint64(id)
			res.Timestamp = verifCmdResults[0].Timestamp
			return nil
		}
	})
	verif_stub("(*os.File).Close", func(f *os.File) error { return nil })
	dec, closer, err := decoder(files)
	verif_assert(err == nil && dec != nil, "C13.decoder.no-error")
	if err != nil || dec == nil {
		return
	}
	verif_assert(len(calls) == n && detected == n, "C13.decoder.one-open-and-one-detection-per-named-input")
	for k := 0; k < len(calls) && k < n; k++ {
		verif_assert(calls[k].name == files[k], "C13.decoder.opens-exactly-the-names-given-in-order")
		verif_assert(calls[k].flag&(os.O_WRONLY|os.O_RDWR|os.O_CREATE|os.O_TRUNC) == 0, "C13.decoder.inputs-are-opened-read-only")
	}
	seen := make([]int, n)
	for {
		var r vegeta.Result
		if dec(&r) != nil {
			break
		}
		if r.Seq < uint64(n) {
			seen[r.Seq]++
		}
	}
	for k := range seen {
		verif_assert(seen[k] == 1, "C13.decoder.every-record-of-every-input-once")
	}
	verif_assert(closer.Close() == nil, "C13.decoder.close")
}
