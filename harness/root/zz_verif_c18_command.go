package main

import (
	"io"
	"net"
	"os"
	"time"

	vegeta "github.com/tsenart/vegeta/v12/lib"
)

// C18 / C19 — the attack command's wiring: the real attack() builds the real
// Attacker from command-line values (files, signals and the attack itself are
// stubs); then a connection to a host name that -connect-to maps is dialled
// through the attacker's transport, with DNS caching on (ttl 0) or off, over a
// resolver model and a recording dialer. The mapped name is replaced before
// anything tries to resolve it: the dialer sees only the replacement address
// and the resolver is never asked for the mapped name. The worker limits,
// max-body and chunked values reach the attacker unchanged.
//
//verif:harness unwind=64 replay=none with=lib
func verif_harness_C18_command_connect_to() { verifCommandWiring() }

// The same harness registered for C19 (command-line values reach the attacker).
//
//verif:harness unwind=64 replay=none with=lib
func verif_harness_C19_command_values() { verifCommandWiring() }

func verifCommandWiring() {
	if !verif_is_symbolic_run() {
		return
	}
	vegeta.VerifC18Env()
	net.DefaultResolver = &net.Resolver{}
	targets := []byte("GET http://mapped.example:80/\n")
	pos := 0
	verif_stub("github.com/tsenart/vegeta/v12.file", func(name string, create bool) (*os.File, error) { return nil, nil })
	verif_stub("(*os.File).Read", func(f *os.File, b []byte) (int, error) {
		if pos >= len(targets) {
			return 0, io.EOF
		}
		n := copy(b, targets[pos:])
		pos += n
		return n, nil
	})
	verif_stub("(*os.File).Write", func(f *os.File, b []byte) (int, error) { return len(b), nil })
	verif_stub("(*os.File).Close", func(f *os.File) error { return nil })
	verif_stub("os/signal.Notify", func(c chan<- os.Signal, sig ...os.Signal) {})
	var built *vegeta.Attacker
	verif_stub("(*github.com/tsenart/vegeta/v12/lib.Attacker).Attack", func(a *vegeta.Attacker, tr vegeta.Targeter, p vegeta.Pacer, du time.Duration, name string) <-chan *vegeta.Result {
		built = a
		ch := make(chan *vegeta.Result)
		close(ch)
		return ch
	})
	ttl := []time.Duration{0, -1}[verif_choose("dns_ttl", 2)]
	workers, maxWorkers, maxBody, chunked := verif_nondet_u64("workers"), verif_nondet_u64("max_workers"), verif_nondet_i64("max_body"), verif_nondet_bool("chunked")
	opts := &attackOpts{
		targetsf: "targets", format: vegeta.HTTPTargetFormat, outputf: "stdout",
		rate: vegeta.Rate{Freq: 50, Per: time.Second}, duration: time.Second, timeout: time.Second,
		workers: workers, maxWorkers: maxWorkers, connections: 100, redirects: 10, maxBody: maxBody, chunked: chunked, keepalive: true,
		laddr:     localAddr{&net.IPAddr{IP: net.IP{0, 0, 0, 0}}},
		dnsTTL:    ttl,
		connectTo: map[string][]string{"mapped.example:80": {"10.1.1.1:8080"}},
	}
	verif_assert(attack(opts) == nil, "C18.command.attack-runs")
	verif_assert(built != nil, "C18.command.attacker-built")
	if built == nil {
		return
	}
	w, mw, mb, ch := vegeta.VerifAttackerLimits(built)
	verif_assert(w == workers && mw == maxWorkers && mb == maxBody && ch == chunked, "C19.command.values-reach-the-attacker")
	lookups, dialled := vegeta.VerifC18DialThrough(built, "mapped.example:80")
	verif_assert(len(dialled) >= 1, "C18.command.a-connection-is-dialled")
	for _, d := range dialled {
		verif_assert(d == "10.1.1.1:8080", "C18.command.mapped-host-dials-the-replacement-address")
	}
	for _, l := range lookups {
		verif_assert(l != "mapped.example", "C18.command.mapped-host-name-is-never-resolved")
	}
}
