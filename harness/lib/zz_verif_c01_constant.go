package vegeta

import (
	"math"
	"time"
)

// C01 — ConstantPacer.Pace, every (Freq, Per, elapsed, hits), full 64-bit
// width, integers encoded as mathematical integers with exact wrap-around.
//
// Per-call obligations over an arbitrary state (elapsed, hits); the closed-loop
// trajectory claims follow by the induction in DESIGN.md §5/C01.
//
//verif:harness mode=int solver=z3 unwind=4 timeout=20000
func verif_harness_C01_constant() {
	freq := verif_nondet_int("freq")
	per := verif_nondet_i64("per")
	elapsed := verif_nondet_i64("elapsed")
	hits := verif_nondet_u64("hits")
	// the attack loop passes time.Since(began) of a monotonic clock
	verif_assume(elapsed >= 0)

	cp := ConstantPacer{Freq: freq, Per: time.Duration(per)}
	w, stop := cp.Pace(time.Duration(elapsed), hits)
	wait := int64(w)

	// (Z) zero means unlimited, negative stops
	if freq == 0 || per == 0 {
		verif_assert(wait == 0 && !stop, "C01.const.Z-zero-is-unlimited")
		return
	}
	if freq < 0 || per < 0 {
		verif_assert(stop, "C01.const.Z-negative-stops")
		return
	}

	F, P, E, H := verif_mi_i(int64(freq)), verif_mi_i(per), verif_mi_i(elapsed), verif_mi_u(hits)
	one := verif_mi_i(1)
	interval := verif_mi_div(P, F) // floor(Per/Freq), both positive
	// whole units elapsed, as the implementation counts them
	units := verif_mi_div(E, P)
	expected := verif_mi_mul(F, units)
	maxI64 := verif_mi_i(math.MaxInt64)

	if verif_mi_lt(H, expected) {
		// running behind the schedule: catch up without waiting
		// (zero or negative waits make time.Sleep return immediately)
		verif_assert(wait <= 0 && !stop, "C01.const.catch-up-when-behind")
		return
	}

	due := verif_mi_mul(verif_mi_add(H, one), interval) // instant the next hit is due

	if stop {
		// (S) a stop for positive parameters is only allowed when the due
		// instant is no longer representable
		verif_assert(verif_mi_lt(maxI64, verif_mi_mul(verif_mi_add(H, verif_mi_i(2)), interval)),
			"C01.const.S-stop-only-on-overflow")
		return
	}

	// (V) no wrap-around: the returned wait is the mathematical one
	verif_assert(verif_mi_le(due, maxI64), "C01.const.V-no-wrap-of-due-instant")
	W := verif_mi_i(wait)
	verif_assert(verif_mi_eq(W, verif_mi_sub(due, E)), "C01.const.V-wait-is-exact")

	// release instant of the next hit for an attacker that follows the pacer
	release := E
	if wait > 0 {
		release = verif_mi_add(E, W)
	}

	// (W) a positive wait only when the next hit is not yet due by the
	// declared rate: (hits+1)*Per > Freq*elapsed
	if wait > 0 {
		verif_assert(verif_mi_lt(verif_mi_mul(F, E), verif_mi_mul(verif_mi_add(H, one), P)),
			"C01.const.W-positive-wait-only-when-on-schedule")
		// (L) at the release instant the count is at most one hit plus one
		// nanosecond per interval behind: Freq*r <= (hits+2)*Per + Freq*(hits+1)
		verif_assert(verif_mi_le(verif_mi_mul(F, release),
			verif_mi_add(verif_mi_mul(verif_mi_add(H, verif_mi_i(2)), P), verif_mi_mul(F, verif_mi_add(H, one)))),
			"C01.const.L-not-late")
	}

	// (U) never more than one hit ahead of the declared schedule:
	// hits*Per <= Freq*release
	if verif_finding_open("C01-const-truncated-interval-drift") {
		rem := verif_mi_sub(P, verif_mi_mul(F, interval)) // Per mod Freq
		verif_assume(verif_mi_le(verif_mi_mul(verif_mi_add(H, one), rem), P))
	}
	verif_assert(verif_mi_le(verif_mi_mul(H, P), verif_mi_mul(F, release)),
		"C01.const.U-at-most-one-ahead")
}

// Witness of the listed finding C01-const-truncated-interval-drift: inside the
// region (hits+1)*(Per mod Freq) > Per the truncated interval releases hits
// ahead of the declared rate. Expected to be violated while the finding is
// open; if the entry is removed or marked fixed this is an ordinary check.
//
//verif:harness mode=int solver=z3 unwind=4 timeout=20000 witness=C01-const-truncated-interval-drift
func verif_harness_C01_constant_kf_drift() {
	freq := verif_nondet_int("freq")
	per := verif_nondet_i64("per")
	elapsed := verif_nondet_i64("elapsed")
	hits := verif_nondet_u64("hits")
	verif_assume(elapsed >= 0 && freq > 0 && per > 0)
	F, P, E, H := verif_mi_i(int64(freq)), verif_mi_i(per), verif_mi_i(elapsed), verif_mi_u(hits)
	interval := verif_mi_div(P, F)
	rem := verif_mi_sub(P, verif_mi_mul(F, interval))
	verif_assume(verif_mi_lt(P, verif_mi_mul(verif_mi_add(H, verif_mi_i(1)), rem)))
	w, stop := ConstantPacer{Freq: freq, Per: time.Duration(per)}.Pace(time.Duration(elapsed), hits)
	if stop {
		return
	}
	release := E
	if int64(w) > 0 {
		release = verif_mi_add(E, verif_mi_i(int64(w)))
	}
	verif_assert(verif_mi_le(verif_mi_mul(H, P), verif_mi_mul(F, release)), "C01.const.U-at-most-one-ahead")
}
