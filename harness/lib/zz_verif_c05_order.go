package vegeta

import (
	"errors"
	"time"
)

// C05 (1) — T goroutines enter the real (*Attacker).hit on one shared attack
// concurrently (the targeter fails at once, so each call runs the critical
// section, the deferred latency computation and Stop, and returns). The clock
// is a shared non-decreasing counter read by visible events; attack.seq is a
// declared shared variable. Over every interleaving: sequence numbers are
// distinct, a smaller sequence number never has a later timestamp, no two
// goroutines can touch attack.seq at the same time (race query).
//
//verif:harness engine=gobmc param.T=2..2 thorough.param.T=2..3 unwind=16 replay=none bmctimeout=1500 queries=cut,bad,deadlock,race maxrecv=4
func verif_harness_C05_seq_timestamp_order() {
	T := verif_param("T")
	a := &Attacker{stopch: make(chan struct{})}
	verif_chan_name(a.stopch, "stop")
	atk := &attack{name: "x", began: time.Unix(0, 1000)}
	verif_shared(&atk.seq, "attack_seq")
	// time.Now: the shared clock advances by an arbitrary amount 0..2 per reading
	verif_stub("time.Now", func() time.Time {
		d := verif_nondet_i64("tick")
		verif_assume(d >= 0 && d <= 2)
		return time.Unix(0, 1000+verif_ghost_add("clock", d))
	})
	tr := Targeter(func(t *Target) error { return errors.New("no target") })
	done := make(chan struct{})
	verif_chan_name(done, "done")
	for w := 0; w < T; w++ {
		w := w
		go func() {
			res := a.hit(tr, atk)
			verif_ghost_add([]string{"seq0", "seq1", "seq2"}[w], int64(res.Seq))
			verif_ghost_add([]string{"ts0", "ts1", "ts2"}[w], res.Timestamp.UnixNano())
			verif_assert(res.Latency >= 0, "C05.latency-non-negative")
			done <- struct{}{}
		}()
	}
	for w := 0; w < T; w++ {
		<-done
	}
	seq := make([]int64, T)
	ts := make([]int64, T)
	for w := 0; w < T; w++ {
		seq[w] = verif_ghost_add([]string{"seq0", "seq1", "seq2"}[w], 0)
		ts[w] = verif_ghost_add([]string{"ts0", "ts1", "ts2"}[w], 0)
		verif_assert(ts[w] >= 1000, "C05.timestamp-not-before-the-attack-began")
	}
	for x := 0; x < T; x++ {
		for y := 0; y < T; y++ {
			if x != y {
				verif_assert(seq[x] != seq[y], "C05.sequence-numbers-distinct")
				verif_assert(!(seq[x] < seq[y]) || ts[x] <= ts[y], "C05.sequence-order-agrees-with-timestamp-order")
			}
		}
	}
}

// C02 — a targeter failure stops the attack: after the real hit path has seen
// the targeter fail (with any error, not only exhaustion), the attack is
// stopped, so a later Stop call reports that it was not the one to stop it.
//
//verif:harness unwind=16
func verif_harness_C02_targeter_failure_stops() {
	a := &Attacker{stopch: make(chan struct{})}
	atk := &attack{name: "x", began: time.Unix(0, 1000)}
	if verif_is_symbolic_run() {
		verif_stub("time.Now", func() time.Time { return time.Unix(0, 2000) })
	}
	errs := []error{ErrNoTargets, errors.New("bad target line"), ErrNilTarget}
	which := verif_choose("targeter_error", len(errs))
	res := a.hit(func(t *Target) error { return errs[which] }, atk)
	verif_assert(res.Error != "", "C02.failed-hit-carries-the-error")
	verif_assert(!a.Stop(), "C02.targeter-failure-stops-the-attack")
}
