package vegeta

import (
	"strconv"
	"time"
)

// verifC10Stubs replaces the t-digest estimator (percentiles are C11, not
// claimed) by a recorder, so that Metrics.Add/Close can be executed
// symbolically.
func verifC10Stubs(samples *[]float64) {
	if !verif_is_symbolic_run() {
		return
	}
	// Duration.Seconds divides by 10^9, which bit-blasts badly; the metrics
	// code only needs its sign and that equal durations give equal seconds.
	verif_stub("(time.Duration).Seconds", func(d time.Duration) float64 {
		s := verif_uf_f64("seconds", int64(d))
		verif_assume((s > 0) == (d > 0))
		verif_assume((s < 0) == (d < 0))
		return s
	})
	verif_stub("github.com/tsenart/vegeta/v12/lib.newTdigestEstimator", func(c float64) *tdigestEstimator {
		return &tdigestEstimator{}
	})
	verif_stub("(*github.com/tsenart/vegeta/v12/lib.tdigestEstimator).Add", func(e *tdigestEstimator, s float64) {
		*samples = append(*samples, s)
	})
	verif_stub("(*github.com/tsenart/vegeta/v12/lib.tdigestEstimator).Get", func(e *tdigestEstimator, q float64) float64 {
		return 0
	})
}

func verifC10Result(texts int) *Result {
	r := &Result{
		Code:      verif_nondet_u16("code"),
		Timestamp: verif_nondet_time("ts"),
		Latency:   time.Duration(verif_nondet_i64("latency")),
		BytesIn:   verif_nondet_u64("bytes_in"),
		BytesOut:  verif_nondet_u64("bytes_out"),
	}
	// latencies are non-negative and far from overflowing a time.Time
	verif_assume(r.Latency >= 0 && r.Latency < 1<<61)
	switch verif_choose("error_kind", texts+1) {
	case 1:
		r.Error = "e1"
	case 2:
		r.Error = "e2"
	}
	return r
}

// C10 (B) — n arbitrary results added in the given order with Close calls at
// arbitrary positions: every exported field after the final Close equals a
// direct computation from the documented definitions. The results are
// symbolic and unordered in time, so every arrival order is covered; the
// reference is symmetric in its inputs, which gives order independence.
//
//verif:harness param.n=1..2 thorough.param.n=1..3 unwind=64 timeout=20000 thorough.timeout=180000 thorough.deadline=3000
func verif_harness_C10_bounded() {
	n := verif_param("n")
	var samples []float64
	verifC10Stubs(&samples)

	var m Metrics
	// 0: only the final Close; k in 1..n: an extra Close after the k-th
	// addition (periodic reporting); n+1: Close twice at the end
	closes, texts := 0, 1
	if n <= 2 {
		closes, texts = verif_choose("closes", n+2), 2
	}
	// (three results: only the final Close and one error text — the extra
	// Close positions and a second error text are covered with n <= 2; with
	// them the n = 3 instance did not finish in 50 minutes)
	rs := make([]*Result, n)
	for i := range rs {
		rs[i] = verifC10Result(texts)
		m.Add(rs[i])
		if closes == i+1 {
			m.Close()
		}
	}
	m.Close()
	if closes == n+1 {
		m.Close()
	}

	// ---- reference: direct computation from the documented definitions ----
	var (
		bytesIn, bytesOut uint64
		total             time.Duration
		minLat, maxLat    = rs[0].Latency, rs[0].Latency
		earliest, latest  = rs[0].Timestamp, rs[0].Timestamp
		end               = rs[0].Timestamp.Add(rs[0].Latency)
		success           uint64
		errs              []string
	)
	for _, r := range rs {
		bytesIn += r.BytesIn
		bytesOut += r.BytesOut
		total += r.Latency
		if r.Latency < minLat {
			minLat = r.Latency
		}
		if r.Latency > maxLat {
			maxLat = r.Latency
		}
		if r.Timestamp.Before(earliest) {
			earliest = r.Timestamp
		}
		if r.Timestamp.After(latest) {
			latest = r.Timestamp
		}
		if e := r.Timestamp.Add(r.Latency); e.After(end) {
			end = e
		}
		if r.Code >= 200 && r.Code < 400 {
			success++
		}
		if r.Error != "" {
			dup := false
			for _, e := range errs {
				if e == r.Error {
					dup = true
				}
			}
			if !dup {
				errs = append(errs, r.Error)
			}
		}
	}

	verif_assert(m.Requests == uint64(n), "C10.requests")
	verif_assert(m.BytesIn.Total == bytesIn && m.BytesOut.Total == bytesOut, "C10.byte-totals")
	verif_assert(m.Latencies.Total == total, "C10.latency-total")
	verif_assert(m.Latencies.Max == maxLat, "C10.latency-max")
	verif_assert(m.Latencies.Min == minLat, "C10.latency-min")
	verif_assert(m.Earliest.Equal(earliest), "C10.earliest")
	verif_assert(m.Latest.Equal(latest), "C10.latest")
	verif_assert(m.End.Equal(end), "C10.end-is-max-end")
	duration := latest.Sub(earliest)
	wait := end.Sub(latest)
	verif_assert(m.Duration == duration, "C10.duration")
	verif_assert(m.Wait == wait, "C10.wait")

	// status-code histogram
	for i := range rs {
		cnt := 0
		for j := range rs {
			if rs[j].Code == rs[i].Code {
				cnt++
			}
		}
		verif_assert(m.StatusCodes[strconv.Itoa(int(rs[i].Code))] == cnt, "C10.status-code-count")
	}
	sum := 0
	for _, c := range m.StatusCodes {
		sum += c
	}
	verif_assert(sum == n, "C10.status-codes-sum-to-requests")

	// distinct error texts
	verif_assert(len(m.Errors) == len(errs), "C10.errors-distinct")
	for _, e := range errs {
		found := 0
		for _, x := range m.Errors {
			if x == e {
				found++
			}
		}
		verif_assert(found == 1, "C10.errors-each-once")
	}

	// derived values by the documented formulas (IEEE arithmetic), applied to
	// the running values that were just shown equal to the reference
	verif_assert(m.success == success, "C10.success-count")
	rate, thr := float64(m.Requests), float64(m.success)
	if secs := m.Duration.Seconds(); secs > 0 {
		rate /= secs
		thr /= (m.Duration + m.Wait).Seconds()
	}
	verif_assert(verif_same_f64(m.Rate, rate), "C10.rate")
	verif_assert(verif_same_f64(m.Throughput, thr), "C10.throughput")
	verif_assert(verif_same_f64(m.Success, float64(m.success)/float64(m.Requests)), "C10.success-ratio")
	verif_assert(verif_same_f64(m.BytesIn.Mean, float64(m.BytesIn.Total)/float64(m.Requests)), "C10.bytes-in-mean")
	verif_assert(verif_same_f64(m.BytesOut.Mean, float64(m.BytesOut.Total)/float64(m.Requests)), "C10.bytes-out-mean")
	verif_assert(m.Latencies.Mean == time.Duration(float64(m.Latencies.Total)/float64(m.Requests)), "C10.latency-mean")

	// each latency reaches the quantile estimator once; the histogram (when
	// requested) counts every result
	if verif_is_symbolic_run() {
		verif_assert(len(samples) == n, "C10.estimator-fed-once-per-result")
	}
	if m.Histogram != nil {
		verif_assert(m.Histogram.Total == uint64(n), "C10.histogram-counts-every-result")
	}
}

// C12/C10 — a Metrics report with buckets counts every result in its
// histogram (same body as above, registered for C12 as well).
//
//verif:harness param.n=2..2 unwind=64 timeout=20000
func verif_harness_C12_metrics_histogram() {
	n := verif_param("n")
	var samples []float64
	verifC10Stubs(&samples)
	m := Metrics{Histogram: &Histogram{Buckets: Buckets{0, time.Millisecond}}}
	for i := 0; i < n; i++ {
		m.Add(verifC10Result(1))
	}
	m.Close()
	verif_assert(m.Histogram.Total == uint64(n), "C12.metrics-histogram-counts-every-result")
	var sum uint64
	for _, c := range m.Histogram.Counts {
		sum += c
	}
	verif_assert(sum == uint64(n), "C12.metrics-histogram-bucket-sum")
}

// C10 (I) — one Add from an arbitrary reachable pre-state (any number of
// earlier results): every running value is updated by the documented step.
// Pre-state invariant assumed: Requests > 0, Earliest <= Latest <= End,
// Min <= Max, all produced by earlier additions.
//
//verif:harness unwind=32 timeout=20000
func verif_harness_C10_step() {
	var samples []float64
	verifC10Stubs(&samples)

	var m Metrics
	m.init()
	m.Latencies.init()
	m.Requests = verif_nondet_u64("requests")
	verif_assume(m.Requests > 0 && m.Requests < 1<<62)
	m.BytesIn.Total = verif_nondet_u64("in_total")
	m.BytesOut.Total = verif_nondet_u64("out_total")
	m.Latencies.Total = time.Duration(verif_nondet_i64("lat_total"))
	m.Latencies.Min = time.Duration(verif_nondet_i64("lat_min"))
	m.Latencies.Max = time.Duration(verif_nondet_i64("lat_max"))
	verif_assume(0 <= m.Latencies.Min && m.Latencies.Min <= m.Latencies.Max && m.Latencies.Max < 1<<61)
	m.Earliest = verif_nondet_time("earliest")
	m.Latest = verif_nondet_time("latest")
	m.End = verif_nondet_time("end")
	verif_assume(!m.Earliest.After(m.Latest) && !m.Latest.After(m.End))
	m.success = verif_nondet_u64("success")
	verif_assume(m.success <= m.Requests)
	c0 := verif_nondet_u16("code0")
	k0 := verif_nondet_int("count0")
	verif_assume(k0 > 0 && k0 < 1<<40)
	m.StatusCodes[strconv.Itoa(int(c0))] = k0
	m.errors["e1"] = struct{}{}
	m.Errors = append(m.Errors, "e1")

	old := m
	r := verifC10Result(2)
	m.Add(r)

	verif_assert(m.Requests == old.Requests+1, "C10.step.requests")
	verif_assert(m.BytesIn.Total == old.BytesIn.Total+r.BytesIn && m.BytesOut.Total == old.BytesOut.Total+r.BytesOut, "C10.step.byte-totals")
	verif_assert(m.Latencies.Total == old.Latencies.Total+r.Latency, "C10.step.latency-total")
	wantMax, wantMin := old.Latencies.Max, old.Latencies.Min
	if r.Latency > wantMax {
		wantMax = r.Latency
	}
	if r.Latency < wantMin {
		wantMin = r.Latency
	}
	verif_assert(m.Latencies.Max == wantMax, "C10.step.latency-max")
	verif_assert(m.Latencies.Min == wantMin, "C10.step.latency-min")
	wantE, wantL, wantEnd := old.Earliest, old.Latest, old.End
	if r.Timestamp.Before(wantE) {
		wantE = r.Timestamp
	}
	if r.Timestamp.After(wantL) {
		wantL = r.Timestamp
	}
	if e := r.End(); e.After(wantEnd) {
		wantEnd = e
	}
	verif_assert(m.Earliest.Equal(wantE), "C10.step.earliest")
	verif_assert(m.Latest.Equal(wantL), "C10.step.latest")
	verif_assert(m.End.Equal(wantEnd), "C10.step.end")
	wantS := old.success
	if r.Code >= 200 && r.Code < 400 {
		wantS++
	}
	verif_assert(m.success == wantS, "C10.step.success-count")
	wantC := 1
	if r.Code == c0 {
		wantC = k0 + 1
	}
	verif_assert(m.StatusCodes[strconv.Itoa(int(r.Code))] == wantC, "C10.step.status-code")
	if r.Code != c0 {
		verif_assert(m.StatusCodes[strconv.Itoa(int(c0))] == k0, "C10.step.other-codes-untouched")
	}
	wantErrs := 1
	if r.Error == "e2" {
		wantErrs = 2
	}
	verif_assert(len(m.Errors) == wantErrs && len(m.errors) == wantErrs, "C10.step.error-set")
	if verif_is_symbolic_run() {
		verif_assert(len(samples) == 1 && verif_same_f64(samples[0], float64(r.Latency)), "C10.step.estimator-fed")
	}
}
