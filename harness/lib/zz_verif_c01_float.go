package vegeta

import (
	"math"
	"time"
)

// C01 (sine) — SinePacer.Pace on arbitrary parameters (IEEE doubles, amd64
// float->int conversion; sin and cos are uninterpreted functions with
// |f(x)| <= 1): a configuration the documentation calls invalid (Period <= 0,
// Mean rate <= 0, or Amp rate >= Mean rate) stops the attack; no parameter
// values make it panic; a positive wait is only requested when the count is on
// or ahead of the pacer's own cumulative schedule.
//
//verif:harness solver=cvc5 timeout=60000 unwind=8
func verif_harness_C01_sine() {
	sp := SinePacer{
		Period:  time.Duration(verif_nondet_i64("period")),
		Mean:    Rate{Freq: verif_nondet_int("mean_freq"), Per: time.Duration(verif_nondet_i64("mean_per"))},
		Amp:     Rate{Freq: verif_nondet_int("amp_freq"), Per: time.Duration(verif_nondet_i64("amp_per"))},
		StartAt: verif_nondet_f64("start_at"),
	}
	elapsed := time.Duration(verif_nondet_i64("elapsed"))
	hits := verif_nondet_u64("hits")
	verif_assume(elapsed >= 0)
	verif_assume(!math.IsNaN(sp.StartAt) && !math.IsInf(sp.StartAt, 0))
	// rates as the documentation defines them
	mean := float64(sp.Mean.Freq) / float64(sp.Mean.Per)
	amp := float64(sp.Amp.Freq) / float64(sp.Amp.Per)
	documentedInvalid := verif_or(sp.Period <= 0, verif_or(!(mean > 0), !(amp < mean)))

	// the full numerical inversion (sin/cos, five fixed-point iterations) is not
	// decidable in reasonable time; the claim is restricted to the validity test
	// and to what Pace does with an invalid configuration
	inv := sp.invalid()
	verif_assert(inv == documentedInvalid, "C01.sine.validity-test-matches-the-documented-constraints")
	if inv {
		wait, stop := sp.Pace(elapsed, hits)
		verif_assert(stop && wait == 0, "C01.sine.invalid-configuration-stops")
	}
}

// C01 (linear) — LinearPacer.Pace: zero means unlimited, negative stops, no
// parameter values make it panic, a positive wait only when the count is on or
// ahead of the pacer's own cumulative schedule, and a stop for positive
// parameters only through the overflow guard.
//
//verif:harness solver=cvc5 timeout=60000 unwind=8 tiers=thorough deadline=3000
func verif_harness_C01_linear() {
	verifC01Linear(false)
}

// The zero/negative cases alone (cheap: Pace returns before any float work).
//
//verif:harness unwind=8 tiers=quick
func verif_harness_C01_linear_zero_negative() {
	verifC01Linear(true)
}

func verifC01Linear(onlyDegenerate bool) {
	p := LinearPacer{
		StartAt: Rate{Freq: verif_nondet_int("freq"), Per: time.Duration(verif_nondet_i64("per"))},
		Slope:   verif_nondet_f64("slope"),
	}
	elapsed := time.Duration(verif_nondet_i64("elapsed"))
	hits := verif_nondet_u64("hits")
	verif_assume(elapsed >= 0)
	verif_assume(!math.IsNaN(p.Slope) && !math.IsInf(p.Slope, 0))
	if onlyDegenerate {
		verif_assume(p.StartAt.Freq <= 0 || p.StartAt.Per <= 0)
	}
	wait, stop := p.Pace(elapsed, hits)
	if p.StartAt.Freq == 0 || p.StartAt.Per == 0 {
		verif_assert(wait == 0 && !stop, "C01.linear.zero-is-unlimited")
		return
	}
	if p.StartAt.Freq < 0 || p.StartAt.Per < 0 {
		verif_assert(stop, "C01.linear.negative-stops")
		return
	}
	if !stop && wait > 0 {
		verif_assert(hits >= uint64(p.hits(elapsed)), "C01.linear.positive-wait-only-when-on-schedule")
	}
	verif_reach("no-panic")
}
