package vegeta

import (
	"bytes"
	"errors"
	"fmt"
	"io"
	"strings"
	"time"
)

// C12 (A) — Histogram.Add from an arbitrary Counts state: exactly the bucket
// with B[i] <= lat < B[i+1] (last one unbounded) is incremented, Total +1.
// One step from an arbitrary state, hence the sums equal the number of
// results for histories of any length.
//
//verif:harness param.n=1..6,9,16 thorough.param.n=1..12,16,20 unwind=32
func verif_harness_C12_add() {
	n := verif_param("n")
	bs := make(Buckets, n)
	for i := range bs {
		bs[i] = time.Duration(verif_nondet_i64("bound"))
		if i > 0 {
			verif_assume(bs[i-1] < bs[i])
		}
	}
	lat := time.Duration(verif_nondet_i64("latency"))
	verif_assume(lat >= bs[0])

	h := &Histogram{Buckets: bs}
	old := make([]uint64, n)
	if !verif_nondet_bool("fresh") {
		// arbitrary pre-state produced by earlier additions
		h.Counts = make([]uint64, n)
		for i := range old {
			old[i] = verif_nondet_u64("count")
			h.Counts[i] = old[i]
		}
		h.Total = verif_nondet_u64("total")
	}
	total0 := h.Total

	h.Add(&Result{Latency: lat})

	verif_assert(len(h.Counts) == n, "C12.add.counts-len")
	verif_assert(h.Total == total0+1, "C12.add.total-plus-one")
	if len(h.Counts) != n {
		return
	}
	for i := range bs {
		in := lat >= bs[i]
		if i < n-1 {
			in = verif_and(in, lat < bs[i+1])
		}
		want := verif_ite_u64(in, old[i]+1, old[i])
		verif_assert(h.Counts[i] == want, "C12.add.exactly-the-matching-bucket")
	}
}

// C12 (A2) — a sequence of additions from a fresh histogram: m results with
// arbitrary latencies (any order: rising, falling, repeated) into n arbitrary
// increasing bounds. After every addition each bucket holds exactly the number
// of latencies so far that lie in its range — whatever state the
// implementation carries from one addition to the next.
//
//verif:harness param.n=2..4 param.m=3..3 thorough.param.n=2..5 thorough.param.m=3..4 unwind=32
func verif_harness_C12_add_sequence() {
	n, m := verif_param("n"), verif_param("m")
	bs := make(Buckets, n)
	for i := range bs {
		bs[i] = time.Duration(verif_nondet_i64("bound"))
		if i > 0 {
			verif_assume(bs[i-1] < bs[i])
		}
	}
	h := &Histogram{Buckets: bs}
	want := make([]uint64, n)
	for k := 0; k < m; k++ {
		lat := time.Duration(verif_nondet_i64("latency"))
		verif_assume(lat >= bs[0])
		h.Add(&Result{Latency: lat})
		verif_assert(h.Total == uint64(k+1) && len(h.Counts) == n, "C12.seq.total-and-counts-len")
		if len(h.Counts) != n {
			return
		}
		for i := range bs {
			in := lat >= bs[i]
			if i < n-1 {
				in = verif_and(in, lat < bs[i+1])
			}
			want[i] = verif_ite_u64(in, want[i]+1, want[i])
			verif_assert(h.Counts[i] == want[i], "C12.seq.each-bucket-counts-exactly-its-latencies")
		}
	}
}

// C12 (U) — Buckets.UnmarshalText with time.ParseDuration replaced by an
// arbitrary-result model: the parsed bounds are kept in order, a zero bound is
// prepended iff the first parsed bound is positive, an error is returned iff
// the brackets are missing or an element fails to parse.
//
//verif:harness param.k=1..4 thorough.param.k=1..6 unwind=16
func verif_harness_C12_unmarshal() {
	k := verif_param("k")
	ds := make([]time.Duration, k)
	fail := make([]bool, k)
	var elems []string
	for i := 0; i < k; i++ {
		ds[i] = time.Duration(verif_nondet_i64("d"))
		fail[i] = verif_nondet_bool("fail")
		// arbitrary spacing around the element
		elems = append(elems, []string{"%s", " %s", "%s ", "\t%s  "}[verif_choose("spacing", 4)])
		tok := fmt.Sprintf("e%d", i)
		if !verif_is_symbolic_run() {
			// native replay: a real duration literal (or garbage) instead of the token
			tok = fmt.Sprintf("%dns", int64(ds[i]))
			if fail[i] {
				tok = "1x"
			}
		}
		elems[i] = fmt.Sprintf(elems[i], tok)
	}
	calls := 0
	if verif_is_symbolic_run() {
		verif_stub("time.ParseDuration", func(s string) (time.Duration, error) {
			idx := -1
			for i := 0; i < k; i++ {
				if s == fmt.Sprintf("e%d", i) {
					idx = i
				}
			}
			calls++
			if idx < 0 {
				// not one of the (trimmed) elements
				return 0, errors.New("model: unknown element")
			}
			if fail[idx] {
				return 0, errors.New("model: bad duration")
			}
			return ds[idx], nil
		})
	}
	text := "[" + strings.Join(elems, ",") + "]"
	shape := verif_choose("shape", 4)
	switch shape {
	case 1:
		text = text[1:] // no opening bracket
	case 2:
		text = text[:len(text)-1] // no closing bracket
	case 3:
		text = "]" + text[1:len(text)-1] + "[" // swapped
	}
	var bs Buckets
	err := bs.UnmarshalText([]byte(text))
	if shape != 0 {
		verif_assert(err != nil, "C12.unmarshal.missing-brackets-rejected")
		verif_assert(calls == 0, "C12.unmarshal.nothing-parsed-without-brackets")
		return
	}
	// first failing element
	firstFail := -1
	for i := 0; i < k; i++ {
		if fail[i] {
			firstFail = i
			break
		}
	}
	if firstFail >= 0 {
		verif_assert(err != nil, "C12.unmarshal.bad-element-rejected")
		return
	}
	verif_assert(err == nil, "C12.unmarshal.accepts-well-formed")
	off := 0
	if ds[0] > 0 {
		off = 1
	}
	verif_assert(len(bs) == k+off, "C12.unmarshal.length")
	if len(bs) != k+off {
		return
	}
	if off == 1 {
		verif_assert(bs[0] == 0, "C12.unmarshal.zero-bound-prepended")
	}
	for i := 0; i < k; i++ {
		verif_assert(bs[i+off] == ds[i], "C12.unmarshal.bounds-preserved-in-order")
	}
}

// C12 (J) — JSON and text renderings show exactly the (bucket, count) pairs,
// also when no result was added.
//
//verif:harness param.n=1..3 thorough.param.n=1..5 unwind=16
func verif_harness_C12_render() {
	n := verif_param("n")
	adds := verif_choose("adds", 3) // 0, 1 or 2 results added before rendering
	bs := make(Buckets, n)
	for i := range bs {
		bs[i] = time.Duration(i) * time.Millisecond
	}
	h := &Histogram{Buckets: bs}
	// as the report command does: the reporter exists before the first result
	textReporter := NewHistogramReporter(h)
	for a := 0; a < adds; a++ {
		h.Add(&Result{Latency: time.Duration(verif_choose("lat", n)) * time.Millisecond})
	}
	counts := make([]uint64, n)
	copy(counts, h.Counts)
	if adds > 0 && verif_is_symbolic_run() {
		// arbitrary counts (any history), keeping Total consistent
		var sum uint64
		for i := range counts {
			counts[i] = verif_nondet_u64("count")
			verif_assume(counts[i] < 1000)
			h.Counts[i] = counts[i]
			sum += counts[i]
		}
		verif_assume(sum > 0)
		h.Total = sum
	}

	type call struct {
		format string
		args   []interface{}
	}
	var calls []call
	if verif_is_symbolic_run() {
		verif_stub("fmt.Fprintf", func(w io.Writer, format string, a ...interface{}) (int, error) {
			calls = append(calls, call{format, a})
			return len(format), nil
		})
		// the bar of '#' characters is not part of the property
		verif_stub("strings.Repeat", func(s string, count int) string { return "" })
	}

	// JSON
	out, err := h.MarshalJSON()
	verif_assert(err == nil, "C12.render.json-no-error")
	if verif_is_symbolic_run() {
		verif_assert(len(calls) == n, "C12.render.json-one-pair-per-bucket")
		for i := 0; i < n && i < len(calls); i++ {
			b, ok1 := calls[i].args[0].(time.Duration)
			c, ok2 := calls[i].args[1].(uint64)
			verif_assert(ok1 && ok2 && b == bs[i] && c == counts[i], "C12.render.json-pair-is-bucket-and-count")
		}
	} else {
		verif_assert(bytes.Count(out, []byte(":")) == n, "C12.render.json-one-pair-per-bucket")
	}

	// text
	calls = nil
	var buf bytes.Buffer
	err = textReporter(&buf)
	verif_assert(err == nil, "C12.render.text-no-error")
	if verif_is_symbolic_run() {
		verif_assert(len(calls) == n+1, "C12.render.text-one-row-per-bucket")
		for i := 1; i <= n && i < len(calls); i++ {
			lo, hi := bs.Nth(i - 1)
			a := calls[i].args
			ok := len(a) >= 3
			if ok {
				s0, k0 := a[0].(string)
				s1, k1 := a[1].(string)
				c, k2 := a[2].(uint64)
				ok = k0 && k1 && k2 && s0 == lo && s1 == hi && c == counts[i-1]
			}
			verif_assert(ok, "C12.render.text-row-is-bucket-and-count")
		}
	} else {
		lines := strings.Split(strings.TrimRight(buf.String(), "\n"), "\n")
		verif_assert(len(lines) == n+1, "C12.render.text-one-row-per-bucket")
		for i := 1; i <= n && i < len(lines); i++ {
			found := false
			for _, f := range strings.Fields(lines[i]) {
				if f == fmt.Sprint(counts[i-1]) {
					found = true
				}
			}
			verif_assert(found, "C12.render.text-row-is-bucket-and-count")
		}
	}
}
