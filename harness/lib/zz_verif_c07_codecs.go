package vegeta

import (
	"bytes"
	"encoding/csv"
	"errors"
	"io"
	"net/http"
	"strconv"
	"strings"
	"time"
)

// C07 (CSV, symbolic) — the CSV encoder/decoder pair on a symbolic Result.
// encoding/csv is replaced by its contract: Write hands a record to a queue,
// Read returns the next queued record (and enforces FieldsPerRecord); quoting
// and escaping inside encoding/csv are outside the claim. Number formatting
// and base64 are injective summaries (strconv/base64 are not vegeta code).
// Obligations: (L) the record has exactly the twelve documented columns in the
// documented order and units; (R) decoding it returns an equal Result; (D) a
// record built from the documentation decodes to the intended fields.
//
//verif:harness unwind=64 replay=none
func verif_harness_C07_csv_symbolic() {
	var queue [][]string
	flushed := 0
	if verif_is_symbolic_run() {
		verif_stub("(*encoding/csv.Writer).Write", func(w *csv.Writer, rec []string) error {
			queue = append(queue, append([]string(nil), rec...))
			return nil
		})
		verif_stub("(*encoding/csv.Writer).Flush", func(w *csv.Writer) { flushed++ })
		verif_stub("(*encoding/csv.Writer).Error", func(w *csv.Writer) error { return nil })
		verif_stub("(*encoding/csv.Reader).Read", func(r *csv.Reader) ([]string, error) {
			if len(queue) == 0 {
				return nil, io.EOF
			}
			rec := queue[0]
			queue = queue[1:]
			if r.FieldsPerRecord > 0 && len(rec) != r.FieldsPerRecord {
				return nil, errors.New("model: wrong number of fields")
			}
			return append([]string(nil), rec...), nil
		})
	} else {
		return
	}
	r := Result{
		Attack:    verif_nondet_string("attack", verif_choose("attack_len", 3)),
		Seq:       verif_nondet_u64("seq"),
		Code:      verif_nondet_u16("code"),
		Timestamp: verif_nondet_time("ts"),
		Latency:   time.Duration(verif_nondet_i64("latency")),
		BytesOut:  verif_nondet_u64("bytes_out"),
		BytesIn:   verif_nondet_u64("bytes_in"),
		Error:     verif_nondet_string("error", verif_choose("error_len", 2)),
		Method:    verif_nondet_string("method", 1),
		URL:       verif_nondet_string("url", 2),
	}
	switch verif_choose("body_kind", 3) {
	case 1:
		r.Body = []byte{}
	case 2:
		r.Body = verif_nondet_bytes("body", 2)
	}

	var sink bytes.Buffer
	verif_assert(NewCSVEncoder(&sink).Encode(&r) == nil, "C07.csv.encode-no-error")
	verif_assert(len(queue) == 1 && flushed == 1, "C07.csv.one-record-flushed-per-result")
	if len(queue) != 1 {
		return
	}
	rec := queue[0]
	// (L) the documented columns: timestamp ns, code, latency ns, bytes out,
	// bytes in, error, base64 body, attack, seq, method, url, base64 headers
	verif_assert(len(rec) == 12, "C07.csv.twelve-columns")
	if len(rec) != 12 {
		return
	}
	verif_assert(rec[0] == strconv.FormatInt(r.Timestamp.UnixNano(), 10), "C07.csv.col1-timestamp-unix-ns")
	verif_assert(rec[1] == strconv.FormatUint(uint64(r.Code), 10), "C07.csv.col2-status-code")
	verif_assert(rec[2] == strconv.FormatInt(int64(r.Latency), 10), "C07.csv.col3-latency-ns")
	verif_assert(rec[3] == strconv.FormatUint(r.BytesOut, 10), "C07.csv.col4-bytes-out")
	verif_assert(rec[4] == strconv.FormatUint(r.BytesIn, 10), "C07.csv.col5-bytes-in")
	verif_assert(rec[5] == r.Error, "C07.csv.col6-error")
	verif_assert(rec[7] == r.Attack, "C07.csv.col8-attack")
	verif_assert(rec[8] == strconv.FormatUint(r.Seq, 10), "C07.csv.col9-seq")
	verif_assert(rec[9] == r.Method && rec[10] == r.URL, "C07.csv.col10-11-method-url")
	verif_assert(rec[11] == "", "C07.csv.col12-no-headers")

	// (R) round trip
	queue = [][]string{rec}
	dec := NewCSVDecoder(&sink)
	var back Result
	verif_assert(dec.Decode(&back) == nil, "C07.csv.decode-no-error")
	verif_assert(back.Equal(r), "C07.csv.round-trip-equal")
	verif_assert(dec.Decode(&back) == io.EOF, "C07.csv.end-of-stream")

	// (D) a record written from the documentation decodes to the intended
	// fields (catches an encoder and decoder that are wrong in the same way)
	ref := []string{"1700000000123456789", "404", "2500", "7", "11", "not found", "", "atk", "9", "PUT", "http://h/p", ""}
	queue = [][]string{ref}
	var d Result
	verif_assert(NewCSVDecoder(&sink).Decode(&d) == nil, "C07.csv.documented-record-decodes")
	verif_assert(d.Timestamp.UnixNano() == 1700000000123456789 && d.Code == 404 && d.Latency == 2500 && d.BytesOut == 7 && d.BytesIn == 11 &&
		d.Error == "not found" && d.Attack == "atk" && d.Seq == 9 && d.Method == "PUT" && d.URL == "http://h/p", "C07.csv.documented-columns-mean-what-they-say")
}

var verifC07Results = []Result{
	{Attack: "plain", Seq: 0, Code: 200, Timestamp: time.Unix(0, 1700000000123456789), Latency: 1500, BytesOut: 3, BytesIn: 5, Body: []byte("hello"), Method: "GET", URL: "http://x/"},
	{Attack: "quotes \"and\", commas", Seq: 18446744073709551615, Code: 65535, Timestamp: time.Unix(0, 1), Latency: 9223372036854775807,
		BytesOut: 18446744073709551615, BytesIn: 0, Error: "line one\nline two, \"quoted\"", Body: []byte{}, Method: "POST", URL: "http://y/?a=b,c"},
	{Attack: "", Seq: 7, Code: 0, Timestamp: time.Unix(0, 7258118399999999999), Latency: 0, Error: "x", Method: "HEAD", URL: "http://z/",
		Headers: http.Header{"Content-Type": {"text/plain"}, "X-Multi": {"a", "b"}}},
	{Attack: "trailing blank ", Seq: 1, Code: 301, Timestamp: time.Unix(0, 1234567890), Latency: -5, Body: []byte{0, 255, 10, 13, 34}, Method: "GET", URL: "u",
		Headers: http.Header{}},
}

// C07 (concrete forms) — both text codecs, through the real encoding/csv,
// base64, jwriter and jlexer code, on results that exercise quoting, embedded
// newlines, the extremes of every numeric field, nanosecond timestamps,
// nil/empty/binary bodies and nil/empty/multi-valued headers; streams of one
// to three heterogeneous records round-trip and end with io.EOF, and the JSON
// text uses the documented names and units.
//
//verif:harness unwind=64
func verif_harness_C07_roundtrip_forms() {
	csvFormat := verif_choose("format", 2) == 0
	n := 1 + verif_choose("records", 3)
	first := verif_choose("first", len(verifC07Results))
	var buf bytes.Buffer
	var enc Encoder
	if csvFormat {
		enc = NewCSVEncoder(&buf)
	} else {
		enc = NewJSONEncoder(&buf)
	}
	var sent []Result
	for k := 0; k < n; k++ {
		r := verifC07Results[(first+k)%len(verifC07Results)]
		verif_assert(enc.Encode(&r) == nil, "C07.forms.encode-no-error")
		sent = append(sent, r)
	}
	text := buf.String()
	if !csvFormat {
		r0 := sent[0]
		verif_assert(strings.Contains(text, `"latency":`+strconv.FormatInt(int64(r0.Latency), 10)), "C07.json.latency-in-nanoseconds")
		verif_assert(strings.Contains(text, `"seq":`+strconv.FormatUint(r0.Seq, 10)) && strings.Contains(text, `"code":`+strconv.FormatUint(uint64(r0.Code), 10)) &&
			strings.Contains(text, `"bytes_out":`+strconv.FormatUint(r0.BytesOut, 10)) && strings.Contains(text, `"bytes_in":`+strconv.FormatUint(r0.BytesIn, 10)), "C07.json.documented-numeric-fields")
		for _, key := range []string{`"attack":`, `"timestamp":"`, `"error":`, `"body":`, `"method":`, `"url":`, `"headers":`} {
			verif_assert(strings.Contains(text, key), "C07.json.documented-field-names")
		}
		verif_assert(strings.Count(text, "\n") == n, "C07.json.one-object-per-line")
	}
	var dec Decoder
	if csvFormat {
		dec = NewCSVDecoder(strings.NewReader(text))
	} else {
		dec = NewJSONDecoder(strings.NewReader(text))
	}
	for _, want := range sent {
		var got Result
		err := dec.Decode(&got)
		verif_assert(err == nil, "C07.forms.decode-no-error")
		verif_assert(got.Equal(want), "C07.forms.round-trip-equal")
	}
	var extra Result
	verif_assert(dec.Decode(&extra) == io.EOF, "C07.forms.end-of-stream")
}

// C07 (every field) — the fields of Result are enumerated from the type itself
// (go/types, on every run), each set to a value that is non-zero and differs
// per field and per record; two such records go through the CSV and the JSON
// codec (real encoding/csv, base64, jwriter, jlexer) and must come back
// structurally equal — compared by the engine field by field, not by
// Result.Equal, so a field the type gains later is covered without anybody
// remembering to extend Equal or this harness. (gob: see the gob harness.)
//
//verif:harness unwind=64 replay=none
func verif_harness_C07_every_field_round_trips() {
	if !verif_is_symbolic_run() {
		return
	}
	csvFormat := verif_choose("format", 2) == 0
	var sent [2]Result
	verif_fill(&sent[0], 1)
	verif_fill(&sent[1], 2)
	var buf bytes.Buffer
	var enc Encoder
	if csvFormat {
		enc = NewCSVEncoder(&buf)
	} else {
		enc = NewJSONEncoder(&buf)
	}
	for k := range sent {
		verif_assert(enc.Encode(&sent[k]) == nil, "C07.fields.encode-no-error")
	}
	var dec Decoder
	if csvFormat {
		dec = NewCSVDecoder(bytes.NewReader(buf.Bytes()))
	} else {
		dec = NewJSONDecoder(bytes.NewReader(buf.Bytes()))
	}
	for k := range sent {
		var got Result
		verif_assert(dec.Decode(&got) == nil, "C07.fields.decode-no-error")
		verif_assert(verif_deep_equal(got, sent[k]), "C07.fields.every-field-of-the-type-round-trips")
	}
	verif_assert(!verif_deep_equal(sent[0], sent[1]), "C07.fields.the-two-records-differ")
}
