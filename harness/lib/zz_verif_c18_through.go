package vegeta

import (
	"context"
	"math/rand"
	"net"
	"net/http"
	"time"

	"github.com/rs/dnscache"
)

// VerifC18Env installs the environment models that NewAttacker's options need
// when they are applied inside a harness of another package (the command).
func VerifC18Env() {
	verif_stub("time.Now", func() time.Time { return time.Unix(0, 1) })
	verif_stub("math/rand.NewSource", func(seed int64) rand.Source { return nil })
	verif_stub("math/rand.New", func(src rand.Source) *rand.Rand { return &rand.Rand{} })
	// any other way of drawing from the generator: every value in range
	verif_stub("(*math/rand.Rand).Intn", func(r *rand.Rand, n int) int { return verif_choose("rand_intn", n) })
	verif_stub("(*math/rand.Rand).Shuffle", func(r *rand.Rand, n int, swap func(i, j int)) {})
}

// VerifC18DialThrough dials addr through the attacker's transport with a
// resolver model (every name resolves to 192.0.2.7, an address literal to itself) and a recording dialer, and
// reports the names the resolver was asked for and the addresses dialled.
func VerifC18DialThrough(a *Attacker, addr string) (lookups, dialled []string) {
	verif_stub("(*github.com/rs/dnscache.Resolver).LookupHost", func(r *dnscache.Resolver, ctx context.Context, host string) ([]string, error) {
		lookups = append(lookups, host)
		if net.ParseIP(host) != nil {
			return []string{host}, nil // an address literal resolves to itself
		}
		return []string{"192.0.2.7"}, nil
	})
	verif_stub("(*net.Dialer).DialContext", func(d *net.Dialer, ctx context.Context, network, addr string) (net.Conn, error) {
		dialled = append(dialled, addr)
		return nil, nil
	})
	tr, ok := a.client.Transport.(*http.Transport)
	if !ok || tr.DialContext == nil {
		return nil, nil
	}
	tr.DialContext(context.Background(), "tcp", addr)
	return lookups, dialled
}

// VerifAttackerLimits exposes what the command configured.
func VerifAttackerLimits(a *Attacker) (workers, maxWorkers uint64, maxBody int64, chunked bool) {
	return a.workers, a.maxWorkers, a.maxBody, a.chunked
}
