package vegeta

import (
	"net/http"
	"strings"

	"github.com/mailru/easyjson/jlexer"
)

func verifHeaderSnapshot(h http.Header) map[string][]string {
	out := map[string][]string{}
	for k, vs := range h {
		out[k] = append([]string(nil), vs...)
	}
	return out
}

func verifHeaderSame(h http.Header, snap map[string][]string) bool {
	if len(h) != len(snap) {
		return false
	}
	for k, vs := range snap {
		got := h[k]
		if len(got) != len(vs) {
			return false
		}
		for i := range vs {
			if got[i] != vs[i] {
				return false
			}
		}
	}
	return true
}

// verifDefaults builds a default header map whose value slice has a symbolic
// amount of spare capacity (what `-header` flags produce depends on append's
// growth, so any capacity can occur).
func verifDefaults() http.Header {
	n := 1 + verif_choose("default_values", 2)
	spare := verif_choose("spare_capacity", 3)
	vs := make([]string, n, n+spare)
	for i := range vs {
		vs[i] = []string{"d1", "d2"}[i]
	}
	return http.Header{"K": vs}
}

// C14 (M) — independence, http format: decoding a later target never changes
// a target returned earlier, nor the defaults; defaults come first, the
// target's own values are added after them.
//
//verif:harness unwind=64
func verif_harness_C14_http_independence() {
	hdr := verifDefaults()
	hdrSnap := verifHeaderSnapshot(hdr)
	// the second target also has a header whose key differs from a default's
	// only in letter case: it is a key of its own, spelled as written
	doc := "GET http://a/\nK: one\n\nGET http://b/\nK: two\nX: y\nk: lower\n\nGET http://c/\n"
	tr := NewHTTPTargeter(strings.NewReader(doc), []byte("body"), hdr)

	var t1, t2, t3 Target
	verif_assert(tr(&t1) == nil, "C14.http.first-target-decodes")
	want1 := append(append([]string(nil), hdrSnap["K"]...), "one")
	snap1 := verifHeaderSnapshot(t1.Header)
	verif_assert(len(t1.Header["K"]) == len(want1) && t1.Header["K"][len(want1)-1] == "one" && t1.Header["K"][0] == "d1", "C14.http.defaults-first-then-own-values")
	verif_assert(tr(&t2) == nil, "C14.http.second-target-decodes")
	verif_assert(verifHeaderSame(t1.Header, snap1), "C14.http.earlier-target-unchanged-by-later-decode")
	verif_assert(verifHeaderSame(hdr, hdrSnap), "C14.http.defaults-unchanged")
	verif_assert(t2.Header["K"][len(t2.Header["K"])-1] == "two" && len(t2.Header["X"]) == 1, "C14.http.second-target-own-values")
	verif_assert(len(t2.Header["k"]) == 1 && t2.Header["k"][0] == "lower" && len(t2.Header["K"]) == len(hdrSnap["K"])+1, "C14.http.header-keys-keep-their-letter-case-next-to-defaults")
	snap2 := verifHeaderSnapshot(t2.Header)
	verif_assert(tr(&t3) == nil, "C14.http.third-target-decodes")
	verif_assert(verifHeaderSame(t1.Header, snap1) && verifHeaderSame(t2.Header, snap2), "C14.http.earlier-targets-unchanged-by-later-decode")
	verif_assert(verifHeaderSame(hdr, hdrSnap), "C14.http.defaults-unchanged")
	verif_assert(verifHeaderSame(t3.Header, hdrSnap), "C14.http.target-without-headers-gets-defaults")
	verif_assert(string(t1.Body) == "body" && string(t3.Body) == "body", "C14.http.default-body-when-none")
	verif_assert(t1.Method == "GET" && t1.URL == "http://a/" && t2.URL == "http://b/" && t3.URL == "http://c/", "C14.http.method-and-url")
	var t4, t5 Target
	verif_assert(tr(&t4) == ErrNoTargets, "C14.http.exhaustion-reported")
	verif_assert(tr(&t5) == ErrNoTargets, "C14.http.exhaustion-reported-to-every-later-call")
}

// C14 (M) — independence, JSON format, through the real easyjson decoder on
// concrete lines (including an empty line, which is skipped).
//
//verif:harness unwind=64
func verif_harness_C14_json_independence() { verifJSONIndependence() }

// The same harness registered for C15: consecutive targets of one JSON
// targeter are not mixed — a target without headers or body gets the defaults,
// nothing of the target decoded before it (whatever the targeter recycles
// between calls; a sync.Pool it creates may hand back the object just Put).
//
//verif:harness unwind=64
func verif_harness_C15_json_targets_not_mixed() { verifJSONIndependence() }

func verifJSONIndependence() {
	hdr := verifDefaults()
	hdrSnap := verifHeaderSnapshot(hdr)
	// the JSON targeter is exercised through its real decoder on concrete lines
	src := `{"method":"GET","url":"http://a/","header":{"K":["one"]}}` + "\n\n" +
		`{"method":"POST","url":"http://b/","header":{"K":["two"],"X":["y"]},"body":"b3du"}` + "\n" +
		`{"method":"GET","url":"http://c/"}` + "\n"
	tr := NewJSONTargeter(strings.NewReader(src), []byte("body"), hdr)
	var t1, t2, t3 Target
	verif_assert(tr(&t1) == nil, "C14.json.first-target-decodes")
	snap1 := verifHeaderSnapshot(t1.Header)
	k1 := t1.Header["K"]
	verif_assert(len(k1) == len(hdrSnap["K"])+1 && k1[0] == "d1" && k1[len(k1)-1] == "one", "C14.json.defaults-first-then-own-values")
	verif_assert(tr(&t2) == nil, "C14.json.second-target-decodes")
	verif_assert(verifHeaderSame(t1.Header, snap1), "C14.json.earlier-target-unchanged-by-later-decode")
	verif_assert(verifHeaderSame(hdr, hdrSnap), "C14.json.defaults-unchanged")
	verif_assert(string(t2.Body) == "own" && string(t1.Body) == "body", "C14.json.default-body-only-when-none")
	k2, x2 := t2.Header["K"], t2.Header["X"]
	verif_assert(len(k2) == len(hdrSnap["K"])+1 && k2[len(k2)-1] == "two" && len(x2) == len(hdrSnap["X"])+1 && x2[len(x2)-1] == "y",
		"C14.json.every-header-key-keeps-its-own-values")
	snap2 := verifHeaderSnapshot(t2.Header)
	verif_assert(tr(&t3) == nil, "C14.json.third-target-decodes")
	verif_assert(verifHeaderSame(t1.Header, snap1) && verifHeaderSame(t2.Header, snap2) && verifHeaderSame(hdr, hdrSnap), "C14.json.earlier-targets-and-defaults-unchanged")
	verif_assert(verifHeaderSame(t3.Header, hdrSnap), "C14.json.target-without-headers-gets-defaults")
	var t4, t5 Target
	verif_assert(tr(&t4) == ErrNoTargets, "C14.json.exhaustion-reported")
	verif_assert(tr(&t5) == ErrNoTargets, "C14.json.exhaustion-reported-to-every-later-call")
}

// verifRefTargets is a reference reader of the http target format written from
// README.md ("http format"): '#' lines are ignored wherever they appear; a
// target is a request line followed by header lines and at most one final
// @file line; targets with headers or a body end at a blank line (or the end),
// simple targets may follow each other directly. ok=false: not well-formed.
type verifRefTarget struct {
	method, url string
	hdr         [][2]string
	body        string
}

func verifRefTargets(lines []string) (out []verifRefTarget, ok bool) {
	const (
		none = iota
		openSimple
		openWithHeaders
		afterBody
	)
	state := none
	for _, raw := range lines {
		l := strings.TrimSpace(raw)
		switch {
		case strings.HasPrefix(l, "#"):
			// ignored wherever it appears
		case l == "":
			state = none
		case strings.HasPrefix(l, "GET ") || strings.HasPrefix(l, "POST "):
			if state == openWithHeaders || state == afterBody {
				return nil, false // a target with headers or a body ends at a blank line
			}
			parts := strings.SplitN(l, " ", 2)
			out = append(out, verifRefTarget{method: parts[0], url: parts[1]})
			state = openSimple
		case strings.HasPrefix(l, "@"):
			if state != openSimple && state != openWithHeaders {
				return nil, false
			}
			out[len(out)-1].body = l[1:]
			state = afterBody
		default: // header line
			if state != openSimple && state != openWithHeaders {
				return nil, false
			}
			kv := strings.SplitN(l, ":", 2)
			out[len(out)-1].hdr = append(out[len(out)-1].hdr, [2]string{strings.TrimSpace(kv[0]), strings.TrimSpace(kv[1])})
			state = openWithHeaders
		}
	}
	return out, true
}

// C14 (D) — decoding of documents of N lines, each line's kind chosen
// symbolically: for every well-formed document the targeter yields exactly the
// described targets in order and then reports exhaustion.
//
//verif:harness param.N=1..4 thorough.param.N=1..5 unwind=64 thorough.deadline=3000
func verif_harness_C14_http_grammar() {
	N := verif_param("N")
	kinds := []string{"GET http://a/", "POST http://b/x", "Ka: va", "kb:vb:c", "# a comment", "", "@/body/file", "  # indented comment", " \t"}
	lines := make([]string, N)
	for i := range lines {
		lines[i] = kinds[verif_choose("line", len(kinds))]
	}
	want, ok := verifRefTargets(lines)
	if !ok {
		return // not a well-formed file: nothing is claimed (crash freedom is C16)
	}
	if verif_is_symbolic_run() {
		verif_stub("os.ReadFile", func(name string) ([]byte, error) { return []byte("content of " + name), nil })
	} else {
		for _, w := range want {
			if w.body != "" {
				return // body files cannot be provided natively
			}
		}
	}
	tr := NewHTTPTargeter(strings.NewReader(strings.Join(lines, "\n")+"\n"), nil, nil)
	for _, w := range want {
		var t Target
		err := tr(&t)
		verif_assert(err == nil, "C14.grammar.described-target-decodes")
		if err != nil {
			return
		}
		verif_assert(t.Method == w.method && t.URL == w.url, "C14.grammar.method-and-url")
		n := 0
		for _, vs := range t.Header {
			n += len(vs)
		}
		verif_assert(n == len(w.hdr), "C14.grammar.exactly-the-described-headers")
		seen := map[string]int{}
		for _, kv := range w.hdr {
			vs := t.Header[kv[0]]
			i := seen[kv[0]]
			seen[kv[0]]++
			verif_assert(i < len(vs) && vs[i] == kv[1], "C14.grammar.header-key-case-and-value-order-preserved")
		}
		if w.body != "" {
			verif_assert(string(t.Body) == "content of "+w.body, "C14.grammar.body-file-loaded")
		} else {
			verif_assert(len(t.Body) == 0, "C14.grammar.no-body")
		}
	}
	var t Target
	verif_assert(tr(&t) == ErrNoTargets, "C14.grammar.exhaustion-after-last-target")
}

// C14 — ReadAllTargets (eager mode of the attack command) returns exactly the
// described targets, each with its own headers, for both formats.
//
//verif:harness unwind=64
func verif_harness_C14_read_all() {
	hdr := verifDefaults()
	var tr Targeter
	if verif_choose("format", 2) == 0 {
		tr = NewJSONTargeter(strings.NewReader(
			`{"method":"GET","url":"http://a/","header":{"K":["one"],"A":["1"]}}`+"\n"+
				`{"method":"POST","url":"http://b/","header":{"B":["2"]},"body":"b3du"}`+"\n"+
				`{"method":"GET","url":"http://c/"}`+"\n"), nil, hdr)
	} else {
		tr = NewHTTPTargeter(strings.NewReader("GET http://a/\nK: one\nA: 1\n\nPOST http://b/\nB: 2\n\nGET http://c/\n"), nil, hdr)
	}
	tgts, err := ReadAllTargets(tr)
	verif_assert(err == nil && len(tgts) == 3, "C14.readall.all-targets-returned")
	if err != nil || len(tgts) != 3 {
		return
	}
	d := len(hdr["K"])
	verif_assert(tgts[0].URL == "http://a/" && tgts[1].URL == "http://b/" && tgts[2].URL == "http://c/", "C14.readall.order")
	verif_assert(len(tgts[0].Header) == 2 && len(tgts[0].Header["K"]) == d+1 && len(tgts[0].Header["A"]) == 1, "C14.readall.first-target-own-headers")
	verif_assert(len(tgts[1].Header) == 2 && len(tgts[1].Header["K"]) == d && len(tgts[1].Header["B"]) == 1, "C14.readall.second-target-own-headers")
	verif_assert(len(tgts[2].Header) == 1 && len(tgts[2].Header["K"]) == d, "C14.readall.third-target-only-defaults")
	verif_assert(tgts[1].Method == "POST" && tgts[0].Method == "GET", "C14.readall.methods")
}

// C14 (L) — target lines far longer than any I/O buffer: two JSON targets, the
// first with a 6 000 / 70 000 byte URL, the second short; and an http-format
// document with a 6 000-byte header value. Each decodes to exactly its target
// (the record decoder of the JSON format is replaced by a recorder that keeps
// the line it was handed), then ErrNoTargets.
//
//verif:harness unwind=64 replay=none
func verif_harness_C14_long_lines() { verifLongLines() }

// The same harness registered for C15 (no target lost or mixed with another).
//
//verif:harness unwind=64 replay=none
func verif_harness_C15_long_lines() { verifLongLines() }

func verifLongLines() {
	if !verif_is_symbolic_run() {
		return
	}
	n := []int{6000, 70000}[verif_choose("line_length", 2)]
	long := make([]byte, n)
	for i := range long {
		long[i] = byte('a' + i%26)
	}
	if verif_nondet_bool("json_format") {
		line1 := `{"method":"GET","url":"http://h/` + string(long) + `"}`
		line2 := `{"method":"POST","url":"http://h/2"}`
		var handed []int
		verif_stub("(*github.com/tsenart/vegeta/v12/lib.jsonTarget).decode", func(t *jsonTarget, in *jlexer.Lexer) {
			handed = append(handed, len(in.Data))
			t.Method, t.URL = "GET", "http://h/x"
		})
		tr := NewJSONTargeter(&verifBigSrc{data: []byte(line1 + "\n" + line2 + "\n")}, nil, nil)
		var a, b, c Target
		verif_assert(tr(&a) == nil && tr(&b) == nil, "C14.long.every-line-decodes")
		verif_assert(len(handed) == 2 && handed[0] == len(line1) && handed[1] == len(line2), "C14.long.each-target-line-handed-over-whole")
		verif_assert(tr(&c) == ErrNoTargets, "C14.long.then-no-targets")
		return
	}
	if n > 6000 {
		return // bufio.Scanner's documented 64 KiB line limit applies to the http format
	}
	doc := "GET http://h/1\nX-Long: " + string(long) + "\n\nGET http://h/2\n"
	tr := NewHTTPTargeter(&verifBigSrc{data: []byte(doc)}, nil, nil)
	var a, b, c Target
	verif_assert(tr(&a) == nil && tr(&b) == nil, "C14.long.every-line-decodes")
	verif_assert(a.URL == "http://h/1" && len(a.Header["X-Long"]) == 1 && len(a.Header["X-Long"][0]) == n && b.URL == "http://h/2" && len(b.Header) == 0,
		"C14.long.each-target-exactly-as-written")
	verif_assert(tr(&c) == ErrNoTargets, "C14.long.then-no-targets")
}
