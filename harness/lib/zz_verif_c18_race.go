package vegeta

import (
	"context"
	"math/rand"
	"net"
	"net/http"
	"time"

	"github.com/rs/dnscache"
)

// C18 (4) — two goroutines dial through the ConnectTo closure at the same
// time (workers share one transport). Memory that existed before the
// goroutines started and that one of them writes is detected automatically and
// every access to it becomes an event; the race query asks whether two such
// accesses (one a write) can be co-enabled, i.e. are not ordered by a lock.
//
//verif:harness engine=gobmc unwind=16 replay=none autoshared=1 queries=cut,race,deadlock bmctimeout=600
func verif_harness_C18_connect_to_race() {
	verif_stub("(*net.Dialer).DialContext", func(d *net.Dialer, ctx context.Context, network, addr string) (net.Conn, error) {
		return nil, nil
	})
	a := &Attacker{dialer: &net.Dialer{}}
	tr := &http.Transport{}
	a.client.Transport = tr
	ConnectTo(map[string][]string{"svc:80": {"r1:1", "r2:2"}})(a)
	done := make(chan struct{})
	verif_chan_name(done, "done")
	for w := 0; w < 2; w++ {
		go func() {
			tr.DialContext(context.Background(), "tcp", "svc:80")
			done <- struct{}{}
		}()
	}
	<-done
	<-done
}

// C18 (4) — two goroutines dial through the DNSCaching closure at the same
// time. The resolver returns a private copy per call (its own locking is the
// dependency's business); rand.Rand.Shuffle is modelled as what it is: a read
// and a write of the generator's state, which is not safe for concurrent use.
//
//verif:harness engine=gobmc unwind=16 replay=none autoshared=1 queries=cut,race,deadlock bmctimeout=600 maxevents=80
func verif_harness_C18_dns_caching_race() {
	rngState := 0
	verif_shared(&rngState, "rng_state")
	verif_stub("time.Now", func() time.Time { return time.Unix(0, 1) })
	verif_stub("math/rand.NewSource", func(seed int64) rand.Source { return nil })
	verif_stub("math/rand.New", func(src rand.Source) *rand.Rand { return &rand.Rand{} })
	verif_stub("(*math/rand.Rand).Shuffle", func(r *rand.Rand, n int, swap func(i, j int)) {
		rngState = rngState + 1 // the generator advances
	})
	verif_stub("(*github.com/rs/dnscache.Resolver).LookupHost", func(r *dnscache.Resolver, ctx context.Context, host string) ([]string, error) {
		return []string{"10.0.0.1", "fd00::1"}, nil
	})
	verif_stub("(*net.Dialer).DialContext", func(d *net.Dialer, ctx context.Context, network, addr string) (net.Conn, error) {
		return nil, nil
	})
	a := &Attacker{dialer: &net.Dialer{}, stopch: make(chan struct{})}
	tr := &http.Transport{}
	a.client.Transport = tr
	DNSCaching(0)(a)
	done := make(chan struct{})
	verif_chan_name(done, "done")
	for w := 0; w < 2; w++ {
		go func() {
			tr.DialContext(context.Background(), "tcp", "svc.example:80")
			done <- struct{}{}
		}()
	}
	<-done
	<-done
}
