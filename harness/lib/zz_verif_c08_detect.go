package vegeta

import "io"

// verifSrc is a reader that delivers a fixed stream in arbitrary short reads.
type verifSrc struct {
	data []byte
	pos  int
}

func (s *verifSrc) Read(p []byte) (int, error) {
	if s.pos >= len(s.data) {
		return 0, io.EOF
	}
	if len(p) == 0 {
		return 0, nil
	}
	max := len(s.data) - s.pos
	if len(p) < max {
		max = len(p)
	}
	n := 1 + verif_choose("short_read", max)
	copy(p, s.data[s.pos:s.pos+n])
	s.pos += n
	return n, nil
}

// C08 — DecoderFor with the three decoder factories replaced by probe models
// that read an arbitrary amount of the reader they are given (in arbitrary
// chunk sizes) and then accept or reject arbitrarily; the source delivers a
// symbolic stream in arbitrary short reads. Whatever the probes consumed,
// every later probe sees the stream from its first byte, the reader handed to
// the selected factory yields exactly the original stream once, the first
// accepting format is selected, and nil is returned iff all three reject.
//
//verif:harness param.L=1..3 thorough.param.L=1..5 unwind=64 thorough.deadline=7000 replay=none
func verif_harness_C08_decoder_for() {
	L := verif_param("L")
	stream := verif_nondet_bytes("stream", L)
	src := &verifSrc{data: stream}

	accept := []bool{verif_nondet_bool("gob_accepts"), verif_nondet_bool("json_accepts"), verif_nondet_bool("csv_accepts")}
	var given [][]io.Reader // readers handed to each factory, in call order
	given = make([][]io.Reader, 3)
	probe := func(which int) func(io.Reader) Decoder {
		return func(rd io.Reader) Decoder {
			given[which] = append(given[which], rd)
			first := len(given[which]) == 1
			return func(r *Result) error {
				if !first {
					return nil // the selected decoder is only drained by the harness below
				}
				// trial decode: consume some prefix of the stream
				got := 0
				for k := 0; k < 2; k++ {
					buf := make([]byte, 1+2*verif_choose("probe_buffer", 2))
					n, err := rd.Read(buf)
					for j := 0; j < n; j++ {
						verif_assert(got+j < L && buf[j] == stream[got+j], "C08.detect.every-probe-sees-the-stream-from-its-first-byte")
					}
					got += n
					if err != nil || verif_nondet_bool("probe_stops") {
						break
					}
				}
				if accept[which] {
					return nil
				}
				// a rejecting decoder fails with any error, end-of-stream included
				return []error{io.ErrUnexpectedEOF, io.EOF}[verif_choose("reject_error", 2)]
			}
		}
	}
	if verif_is_symbolic_run() {
		verif_stub("github.com/tsenart/vegeta/v12/lib.NewDecoder", probe(0))
		verif_stub("github.com/tsenart/vegeta/v12/lib.NewJSONDecoder", probe(1))
		verif_stub("github.com/tsenart/vegeta/v12/lib.NewCSVDecoder", probe(2))
	} else {
		return
	}

	dec := DecoderFor(src)

	want := -1
	for w := 0; w < 3; w++ {
		if accept[w] {
			want = w
			break
		}
	}
	if want < 0 {
		verif_assert(dec == nil, "C08.detect.no-decoder-when-every-format-rejects")
		return
	}
	verif_assert(dec != nil, "C08.detect.decoder-returned-when-a-format-accepts")
	for w := 0; w < 3; w++ {
		switch {
		case w < want:
			verif_assert(len(given[w]) == 1, "C08.detect.rejecting-format-probed-once")
		case w == want:
			verif_assert(len(given[w]) == 2, "C08.detect.first-accepting-format-selected")
		default:
			verif_assert(len(given[w]) == 0, "C08.detect.later-formats-not-tried")
		}
	}
	if len(given[want]) != 2 {
		return
	}
	// drain the reader the selected decoder works on
	final := given[want][1]
	var out []byte
	for k := 0; k < 4*L+4; k++ {
		buf := make([]byte, 2)
		n, err := final.Read(buf)
		out = append(out, buf[:n]...)
		if err == io.EOF {
			break
		}
		verif_assert(err == nil, "C08.detect.no-read-error")
	}
	verif_assert(len(out) == L, "C08.detect.nothing-lost-or-duplicated")
	for i := 0; i < len(out) && i < L; i++ {
		verif_assert(out[i] == stream[i], "C08.detect.bytes-in-order-unaltered")
	}
}

// verifBigSrc delivers a fixed stream in reads of at most 32 KiB.
type verifBigSrc struct {
	data []byte
	pos  int
}

func (s *verifBigSrc) Read(p []byte) (int, error) {
	if s.pos >= len(s.data) {
		return 0, io.EOF
	}
	n := len(p)
	if n > 32768 {
		n = 32768
	}
	if n > len(s.data)-s.pos {
		n = len(s.data) - s.pos
	}
	copy(p, s.data[s.pos:s.pos+n])
	s.pos += n
	return n, nil
}

// C08 — a first record larger than the I/O buffers: a concrete stream of
// 70 000 bytes delivered in reads of at most 32 KiB; each probe needs the first
// 65 535 / 65 536 / 65 537 / 70 000 bytes (a choice) to decide, and fails like a
// real decoder on a truncated record if the reader ends before that. The format
// that accepts is a choice. Detection still finds it, every probe saw the true
// prefix, and the selected decoder's reader yields the whole stream once.
//
//verif:harness unwind=64 replay=none
func verif_harness_C08_decoder_for_large_record() {
	if !verif_is_symbolic_run() {
		return
	}
	const N = 70000
	stream := make([]byte, N)
	for i := range stream {
		stream[i] = byte(i % 251)
	}
	src := &verifBigSrc{data: stream}
	need := []int{65535, 65536, 65537, N}[verif_choose("first_record_bytes", 4)]
	accepting := verif_choose("accepting_format", 3)
	given := make([][]io.Reader, 3)
	probe := func(which int) func(io.Reader) Decoder {
		return func(rd io.Reader) Decoder {
			given[which] = append(given[which], rd)
			first := len(given[which]) == 1
			return func(r *Result) error {
				if !first {
					return nil
				}
				got := make([]byte, 0, N)
				buf := make([]byte, 32768)
				for k := 0; k < 8 && len(got) < need; k++ {
					want := need - len(got)
					if want > len(buf) {
						want = len(buf)
					}
					n, err := rd.Read(buf[:want])
					got = append(got, buf[:n]...)
					if err != nil {
						break
					}
				}
				verif_assert(verifSamePrefix(got, stream), "C08.detect.every-probe-sees-the-stream-from-its-first-byte")
				if len(got) < need {
					return io.ErrUnexpectedEOF // the record was cut short
				}
				if which == accepting {
					return nil
				}
				return io.ErrUnexpectedEOF
			}
		}
	}
	verif_stub("github.com/tsenart/vegeta/v12/lib.NewDecoder", probe(0))
	verif_stub("github.com/tsenart/vegeta/v12/lib.NewJSONDecoder", probe(1))
	verif_stub("github.com/tsenart/vegeta/v12/lib.NewCSVDecoder", probe(2))

	dec := DecoderFor(src)
	verif_assert(dec != nil, "C08.detect.large-first-record-is-detected")
	if dec == nil || len(given[accepting]) != 2 {
		verif_assert(dec == nil, "C08.detect.first-accepting-format-selected")
		return
	}
	final := given[accepting][1]
	out := make([]byte, 0, N)
	buf := make([]byte, 32768)
	for k := 0; k < 16; k++ {
		n, err := final.Read(buf)
		out = append(out, buf[:n]...)
		if err != nil {
			break
		}
	}
	verif_assert(len(out) == N && verifSamePrefix(out, stream), "C08.detect.nothing-lost-or-duplicated")
}

func verifSamePrefix(got, stream []byte) bool {
	if len(got) > len(stream) {
		return false
	}
	for i := range got {
		if got[i] != stream[i] {
			return false
		}
	}
	return true
}

// C08 / C13 — several inputs are opened, and their formats detected, before
// any of them is read (that is what the commands do with several files): two
// sources with different streams go through DecoderFor one after the other,
// then each selected decoder's reader is drained. Each yields its own stream,
// whole and once — whatever detection kept of the first input is not disturbed
// by detecting the second.
//
//verif:harness unwind=64 replay=none
func verif_harness_C08_detect_several_inputs() { verifSeveralInputs() }

// The same harness registered for C13 (several inputs = their union).
//
//verif:harness unwind=64 replay=none
func verif_harness_C13_detect_several_inputs() { verifSeveralInputs() }

func verifSeveralInputs() {
	if !verif_is_symbolic_run() {
		return
	}
	streams := [][]byte{[]byte("first-input"), []byte("2nd")}
	var final []io.Reader
	probe := func(accepts bool) func(io.Reader) Decoder {
		calls := 0
		return func(rd io.Reader) Decoder {
			calls++
			trial := calls%2 == 1 // per input: one trial, then (if accepted) the selected decoder
			if !trial {
				final = append(final, rd)
			}
			return func(r *Result) error {
				if trial {
					buf := make([]byte, 1+verif_choose("probe_reads", 4))
					rd.Read(buf)
					if !accepts {
						return io.ErrUnexpectedEOF
					}
				}
				return nil
			}
		}
	}
	fmtIdx := verif_choose("format", 3)
	verif_stub("github.com/tsenart/vegeta/v12/lib.NewDecoder", probe(fmtIdx == 0))
	verif_stub("github.com/tsenart/vegeta/v12/lib.NewJSONDecoder", probe(fmtIdx == 1))
	verif_stub("github.com/tsenart/vegeta/v12/lib.NewCSVDecoder", probe(fmtIdx == 2))
	for _, s := range streams {
		verif_assert(DecoderFor(&verifBigSrc{data: s}) != nil, "C08.several.decoder-found")
	}
	verif_assert(len(final) == len(streams), "C08.several.one-selected-decoder-per-input")
	for k := 0; k < len(final) && k < len(streams); k++ {
		var out []byte
		buf := make([]byte, 4)
		for n := 0; n < 16; n++ {
			m, err := final[k].Read(buf)
			out = append(out, buf[:m]...)
			if err != nil {
				break
			}
		}
		verif_assert(string(out) == string(streams[k]), "C08.several.each-input-yields-its-own-stream")
	}
}

// verifSeekSrc is a source that also offers Seek, like the *os.File the
// commands pass in: a regular file (Seek works) or a pipe / stdin (Seek fails).
type verifSeekSrc struct {
	data     []byte
	pos      int
	seekable bool
}

func (s *verifSeekSrc) Read(p []byte) (int, error) {
	if s.pos >= len(s.data) {
		return 0, io.EOF
	}
	n := copy(p, s.data[s.pos:])
	s.pos += n
	return n, nil
}

func (s *verifSeekSrc) Seek(offset int64, whence int) (int64, error) {
	if !s.seekable {
		return 0, io.ErrClosedPipe // what a pipe answers: illegal seek
	}
	switch whence {
	case io.SeekStart:
		s.pos = int(offset)
	case io.SeekCurrent:
		s.pos += int(offset)
	case io.SeekEnd:
		s.pos = len(s.data) + int(offset)
	}
	return int64(s.pos), nil
}

// C08 — the source is a file-like reader: it may or may not be able to seek,
// and it may already have been read up to some offset when detection starts.
// The stream that counts begins at the reader's current position; the selected
// decoder's reader yields exactly that, once.
//
//verif:harness unwind=64 replay=none
func verif_harness_C08_detect_file_like_source() {
	if !verif_is_symbolic_run() {
		return
	}
	all := []byte("0123456789abcdef")
	start := []int{0, 3}[verif_choose("already_read", 2)]
	src := &verifSeekSrc{data: all, pos: start, seekable: verif_nondet_bool("can_seek")}
	stream := all[start:]
	var final []io.Reader
	probe := func(accepts bool) func(io.Reader) Decoder {
		calls := 0
		return func(rd io.Reader) Decoder {
			calls++
			trial := calls == 1
			if !trial {
				final = append(final, rd)
			}
			return func(r *Result) error {
				if trial {
					buf := make([]byte, 1+verif_choose("probe_reads", 5))
					n, _ := rd.Read(buf)
					verif_assert(verifSamePrefix(buf[:n], stream), "C08.detect.every-probe-sees-the-stream-from-its-first-byte")
					if !accepts {
						return io.ErrUnexpectedEOF
					}
				}
				return nil
			}
		}
	}
	fmtIdx := verif_choose("format", 3)
	verif_stub("github.com/tsenart/vegeta/v12/lib.NewDecoder", probe(fmtIdx == 0))
	verif_stub("github.com/tsenart/vegeta/v12/lib.NewJSONDecoder", probe(fmtIdx == 1))
	verif_stub("github.com/tsenart/vegeta/v12/lib.NewCSVDecoder", probe(fmtIdx == 2))
	verif_assert(DecoderFor(src) != nil, "C08.detect.decoder-returned-when-a-format-accepts")
	verif_assert(len(final) == 1, "C08.detect.first-accepting-format-selected")
	if len(final) != 1 {
		return
	}
	var out []byte
	buf := make([]byte, 5)
	for n := 0; n < 16; n++ {
		m, err := final[0].Read(buf)
		out = append(out, buf[:m]...)
		if err != nil {
			break
		}
	}
	verif_assert(string(out) == string(stream), "C08.detect.nothing-lost-or-duplicated")
}
