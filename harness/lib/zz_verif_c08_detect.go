package vegeta

import "io"

// verifSrc is a reader that delivers a fixed stream in arbitrary short reads.
type verifSrc struct {
	data []byte
	pos  int
}

func (s *verifSrc) Read(p []byte) (int, error) {
	if s.pos >= len(s.data) {
		return 0, io.EOF
	}
	if len(p) == 0 {
		return 0, nil
	}
	max := len(s.data) - s.pos
	if len(p) < max {
		max = len(p)
	}
	n := 1 + verif_choose("short_read", max)
	copy(p, s.data[s.pos:s.pos+n])
	s.pos += n
	return n, nil
}

// C08 — DecoderFor with the three decoder factories replaced by probe models
// that read an arbitrary amount of the reader they are given (in arbitrary
// chunk sizes) and then accept or reject arbitrarily; the source delivers a
// symbolic stream in arbitrary short reads. Whatever the probes consumed,
// every later probe sees the stream from its first byte, the reader handed to
// the selected factory yields exactly the original stream once, the first
// accepting format is selected, and nil is returned iff all three reject.
//
//verif:harness param.L=1..3 thorough.param.L=1..5 unwind=64 thorough.deadline=7000 replay=none
func verif_harness_C08_decoder_for() {
	L := verif_param("L")
	stream := verif_nondet_bytes("stream", L)
	src := &verifSrc{data: stream}

	accept := []bool{verif_nondet_bool("gob_accepts"), verif_nondet_bool("json_accepts"), verif_nondet_bool("csv_accepts")}
	var given [][]io.Reader // readers handed to each factory, in call order
	given = make([][]io.Reader, 3)
	probe := func(which int) func(io.Reader) Decoder {
		return func(rd io.Reader) Decoder {
			given[which] = append(given[which], rd)
			first := len(given[which]) == 1
			return func(r *Result) error {
				if !first {
					return nil // the selected decoder is only drained by the harness below
				}
				// trial decode: consume some prefix of the stream
				got := 0
				for k := 0; k < 2; k++ {
					buf := make([]byte, 1+2*verif_choose("probe_buffer", 2))
					n, err := rd.Read(buf)
					for j := 0; j < n; j++ {
						verif_assert(got+j < L && buf[j] == stream[got+j], "C08.detect.every-probe-sees-the-stream-from-its-first-byte")
					}
					got += n
					if err != nil || verif_nondet_bool("probe_stops") {
						break
					}
				}
				if accept[which] {
					return nil
				}
				// a rejecting decoder fails with any error, end-of-stream included
				return []error{io.ErrUnexpectedEOF, io.EOF}[verif_choose("reject_error", 2)]
			}
		}
	}
	if verif_is_symbolic_run() {
		verif_stub("github.com/tsenart/vegeta/v12/lib.NewDecoder", probe(0))
		verif_stub("github.com/tsenart/vegeta/v12/lib.NewJSONDecoder", probe(1))
		verif_stub("github.com/tsenart/vegeta/v12/lib.NewCSVDecoder", probe(2))
	} else {
		return
	}

	dec := DecoderFor(src)

	want := -1
	for w := 0; w < 3; w++ {
		if accept[w] {
			want = w
			break
		}
	}
	if want < 0 {
		verif_assert(dec == nil, "C08.detect.no-decoder-when-every-format-rejects")
		return
	}
	verif_assert(dec != nil, "C08.detect.decoder-returned-when-a-format-accepts")
	for w := 0; w < 3; w++ {
		switch {
		case w < want:
			verif_assert(len(given[w]) == 1, "C08.detect.rejecting-format-probed-once")
		case w == want:
			verif_assert(len(given[w]) == 2, "C08.detect.first-accepting-format-selected")
		default:
			verif_assert(len(given[w]) == 0, "C08.detect.later-formats-not-tried")
		}
	}
	if len(given[want]) != 2 {
		return
	}
	// drain the reader the selected decoder works on
	final := given[want][1]
	var out []byte
	for k := 0; k < 4*L+4; k++ {
		buf := make([]byte, 2)
		n, err := final.Read(buf)
		out = append(out, buf[:n]...)
		if err == io.EOF {
			break
		}
		verif_assert(err == nil, "C08.detect.no-read-error")
	}
	verif_assert(len(out) == L, "C08.detect.nothing-lost-or-duplicated")
	for i := 0; i < len(out) && i < L; i++ {
		verif_assert(out[i] == stream[i], "C08.detect.bytes-in-order-unaltered")
	}
}
