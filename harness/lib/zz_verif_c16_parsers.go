package vegeta

import (
	"bytes"
	"errors"
	"net/http"
	"strings"
)

var errVerifNoFile = errors.New("model: open: no such file or directory")

// verifC16Budget: slice elements a parser may allocate regardless of its input
// (I/O buffers of 4..64 KiB); beyond it, 64 per input byte.
const verifC16Budget = 1 << 18

func verifASCII(name string, n int) []byte {
	b := verif_nondet_bytes(name, n)
	for _, c := range b {
		verif_assume(c < 0x80)
	}
	return b
}

// C16 — no input makes a parser panic: every parser below is run on every
// ASCII byte string of the stated length (the real library code underneath is
// interpreted on the symbolic bytes); any run-time panic (index, slice, nil,
// conversion) on any path is a violation, and every call returns within the
// instruction budget. Parsers that read from a stream also run under a memory
// budget (a constant for I/O buffers plus 64 elements per input byte): what
// make() allocates must stay proportional to the input.
//
//verif:harness param.L=0..4 unwind=48
func verif_harness_C16_buckets_bytes() {
	var bs Buckets
	err := bs.UnmarshalText(verifASCII("text", verif_param("L")))
	verif_assert(err != nil || len(bs) > 0, "C16.buckets-value-or-error")
}

//verif:harness param.L=0..3 thorough.param.L=0..4 unwind=48 thorough.deadline=1500
func verif_harness_C16_http_targeter_bytes() {
	src := verifASCII("doc", verif_param("L"))
	verif_alloc_limit(verifC16Budget + 64*len(src))
	tr := NewHTTPTargeter(bytes.NewReader(src), nil, nil)
	for k := 0; k < 3; k++ {
		var t Target
		if err := tr(&t); err != nil {
			break
		}
		verif_assert(t.Method != "" && t.URL != "", "C16.http-target-has-method-and-url")
	}
	verif_reach("done")
}

//verif:harness param.L=0..3 thorough.param.L=0..3 unwind=48 thorough.deadline=1500
func verif_harness_C16_json_targeter_bytes() {
	src := verifASCII("doc", verif_param("L"))
	verif_alloc_limit(verifC16Budget + 64*len(src))
	var hdr http.Header
	if verif_nondet_bool("default_headers") {
		hdr = http.Header{"X-Default": {"1"}}
	}
	tr := NewJSONTargeter(bytes.NewReader(src), nil, hdr)
	for k := 0; k < 3; k++ {
		var t Target
		if err := tr(&t); err != nil {
			break
		}
		verif_assert(t.Method != "" && t.URL != "", "C16.json-target-has-method-and-url")
	}
	verif_reach("done")
}

//verif:harness param.L=0..3 thorough.param.L=0..3 unwind=48 thorough.deadline=1500
func verif_harness_C16_json_decoder_bytes() {
	src := verifASCII("doc", verif_param("L"))
	verif_alloc_limit(verifC16Budget + 64*len(src))
	dec := NewJSONDecoder(bytes.NewReader(src))
	for k := 0; k < 3; k++ {
		var r Result
		if dec.Decode(&r) != nil {
			break
		}
	}
	verif_reach("done")
}

// CSV: records of 0..13 fields, each field one of a few representative texts
// (numbers in and out of range, non-numbers, base64 and non-base64, blanks).
//
//verif:harness unwind=48
func verif_harness_C16_csv_decoder_fields() {
	texts := []string{"", "0", "17", "-1", "99999999999999999999", "x", "aGk=", "!", " 7", "DQo="}
	n := verif_choose("fields", 14)
	fields := make([]string, n)
	// one field at a time takes each representative text, the others are benign
	odd := verif_choose("odd_field", 13)
	for i := range fields {
		fields[i] = "1"
		if i == 6 || i == 11 {
			fields[i] = ""
		}
		if i == odd {
			fields[i] = texts[verif_choose("text", len(texts))]
		}
	}
	doc := strings.Join(fields, ",") + "\n"
	dec := NewCSVDecoder(strings.NewReader(doc))
	var r Result
	err := dec.Decode(&r)
	verif_assert(n == 12 || err != nil, "C16.csv-wrong-field-count-rejected")
	verif_reach("done")
}

// C16 — the http-format targeter on structured documents: 1..3 / 1..4 lines,
// each chosen among well-formed and malformed kinds (request lines, headers
// with a missing name or value, lines that are neither, comments, blanks, a
// body reference to a missing file); the targeter is called four times and
// keeps being called after it reported an error. Every call returns — an
// error path that leaves the targeter unusable (a lock never released) is a
// hang for the next caller — and none panics.
//
//verif:harness param.L=1..3 thorough.param.L=1..4 unwind=64
func verif_harness_C16_http_targeter_lines() {
	kinds := []string{
		"GET http://a/",
		"POST /p",
		"X-H: 1",
		"X-Empty:",
		": novalue",
		"neither",
		"# comment",
		"",
		"@/nonexistent/verif-body",
		"BREW http://a/",
		"GET ://bad",
	}
	L := verif_param("L")
	doc := ""
	for k := 0; k < L; k++ {
		doc += kinds[verif_choose("line", len(kinds))] + "\n"
	}
	if verif_is_symbolic_run() {
		// the file system is not part of the input: the referenced file is missing
		verif_stub("os.ReadFile", func(name string) ([]byte, error) { return nil, errVerifNoFile })
	}
	verif_alloc_limit(verifC16Budget + 64*len(doc))
	tr := NewHTTPTargeter(strings.NewReader(doc), nil, nil)
	for k := 0; k < 4; k++ {
		var t Target
		if err := tr(&t); err == nil {
			verif_assert(t.Method != "" && t.URL != "", "C16.http-target-has-method-and-url")
		}
	}
	verif_reach("done")
}

// C16 — the JSON-format targeter on structured lines: 1..2 / 1..3 lines chosen
// among well-formed targets (with and without headers and body), truncated and
// mistyped objects, blanks; with and without default headers and body. Called
// again after errors; no call panics or hangs, memory stays within the budget.
//
//verif:harness param.L=1..2 thorough.param.L=1..3 unwind=64
func verif_harness_C16_json_targeter_lines() {
	kinds := []string{
		`{"method":"GET","url":"http://a/"}`,
		`{"method":"POST","url":"http://a/","header":{"A":["1","2"],"B":["3"]},"body":"aGk="}`,
		`{"method":"GET","url":"http://a/","header":{}}`,
		`{"method":"GET","url":"http://a/","header":null,"body":null}`,
		`{"method":"GET"}`,
		`{"url":"http://a/"}`,
		`{"method":1,"url":[]}`,
		`{"method":"GET","url":"http://a/"`,
		`[]`,
		`{"method":"GET","url":"http://a/","header":{"A":"1"}}`,
		``,
	}
	L := verif_param("L")
	doc := ""
	for k := 0; k < L; k++ {
		doc += kinds[verif_choose("line", len(kinds))] + "\n"
	}
	var hdr http.Header
	var body []byte
	if verif_nondet_bool("defaults") {
		hdr, body = http.Header{"X-Default": {"1"}}, []byte("default")
	}
	verif_alloc_limit(verifC16Budget + 64*len(doc))
	tr := NewJSONTargeter(strings.NewReader(doc), body, hdr)
	for k := 0; k < 4; k++ {
		var t Target
		if err := tr(&t); err == nil {
			verif_assert(t.Method != "" && t.URL != "", "C16.json-target-has-method-and-url")
		}
	}
	verif_reach("done")
}
