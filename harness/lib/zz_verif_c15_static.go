package vegeta

// C15 (1) — the static targeter from an arbitrary counter state: draw number
// i+1 returns tgts[(i+1) mod k] and advances the counter by exactly one, so
// draws rotate strictly and after n draws every target was used floor(n/k) or
// ceil(n/k) times. (The counter is private to the closure; the arbitrary state
// is reached by replacing the atomic add with a model that first sets it.)
//
//verif:harness mode=int param.k=1..4 unwind=16
func verif_harness_C15_static_rotation() {
	k := verif_param("k")
	tgts := make([]Target, k)
	for i := range tgts {
		tgts[i] = Target{Method: "GET", URL: []string{"u0", "u1", "u2", "u3"}[i]}
	}
	tr := NewStaticTargeter(tgts...)
	pre := verif_nondet_i64("counter")
	verif_assume(pre >= -1 && pre < 1<<62)
	calls := 0
	if verif_is_symbolic_run() {
		verif_stub("sync/atomic.AddInt64", func(addr *int64, delta int64) int64 {
			if calls == 0 {
				*addr = pre // arbitrary state left by earlier draws
			}
			calls++
			*addr += delta
			return *addr
		})
	} else {
		return
	}
	var a, b Target
	verif_assert(tr(&a) == nil && tr(&b) == nil, "C15.static.no-error")
	verif_assert(calls == 2, "C15.static.one-ticket-per-draw")
	ia, ib := (pre+1)%int64(k), (pre+2)%int64(k)
	for j := 0; j < k; j++ {
		if ia == int64(j) {
			verif_assert(a.URL == tgts[j].URL, "C15.static.strict-rotation")
		}
		if ib == int64(j) {
			verif_assert(b.URL == tgts[j].URL, "C15.static.strict-rotation")
		}
	}
	verif_assert(tr(nil) == ErrNilTarget, "C15.static.nil-target-rejected")
}
