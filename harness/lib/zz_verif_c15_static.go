package vegeta

import (
	"bufio"
	"io"
	"strings"
)

// C15 (1) — the static targeter from an arbitrary counter state: draw number
// i+1 returns tgts[(i+1) mod k] and advances the counter by exactly one, so
// draws rotate strictly and after n draws every target was used floor(n/k) or
// ceil(n/k) times. (The counter is private to the closure; the arbitrary state
// is reached by replacing the atomic add with a model that first sets it.)
//
//verif:harness mode=int param.k=1..4 unwind=16
func verif_harness_C15_static_rotation() {
	k := verif_param("k")
	tgts := make([]Target, k)
	for i := range tgts {
		tgts[i] = Target{Method: "GET", URL: []string{"u0", "u1", "u2", "u3"}[i]}
	}
	tr := NewStaticTargeter(tgts...)
	pre := verif_nondet_i64("counter")
	verif_assume(pre >= -1 && pre < 1<<62)
	calls := 0
	if verif_is_symbolic_run() {
		verif_stub("sync/atomic.AddInt64", func(addr *int64, delta int64) int64 {
			if calls == 0 {
				*addr = pre // arbitrary state left by earlier draws
			}
			calls++
			*addr += delta
			return *addr
		})
	} else {
		return
	}
	var a, b Target
	verif_assert(tr(&a) == nil && tr(&b) == nil, "C15.static.no-error")
	verif_assert(calls == 2, "C15.static.one-ticket-per-draw")
	ia, ib := (pre+1)%int64(k), (pre+2)%int64(k)
	for j := 0; j < k; j++ {
		if ia == int64(j) {
			verif_assert(a.URL == tgts[j].URL, "C15.static.strict-rotation")
		}
		if ib == int64(j) {
			verif_assert(b.URL == tgts[j].URL, "C15.static.strict-rotation")
		}
	}
	verif_assert(tr(nil) == ErrNilTarget, "C15.static.nil-target-rejected")
}

// C15 (2) — T goroutines draw from one static targeter concurrently: over
// every interleaving each of the k targets is used floor(T/k) or ceil(T/k)
// times, and no two accesses to the counter can race.
//
//verif:harness engine=gobmc param.T=2..3 unwind=16 replay=none autoshared=1 queries=cut,bad,race,deadlock bmctimeout=600
func verif_harness_C15_static_concurrent() {
	T := verif_param("T")
	tr := NewStaticTargeter(Target{Method: "GET", URL: "u0"}, Target{Method: "GET", URL: "u1"})
	done := make(chan struct{})
	verif_chan_name(done, "done")
	for w := 0; w < T; w++ {
		go func() {
			var t Target
			verif_assert(tr(&t) == nil, "C15.static.no-error")
			if t.URL == "u0" {
				verif_ghost_add("used0", 1)
			} else {
				verif_ghost_add("used1", 1)
			}
			done <- struct{}{}
		}()
	}
	for w := 0; w < T; w++ {
		<-done
	}
	u0, u1 := verif_ghost_add("used0", 0), verif_ghost_add("used1", 0)
	verif_assert(u0+u1 == int64(T) && u0-u1 <= 1 && u1-u0 <= 1, "C15.static.even-rotation-under-concurrency")
}

// C15 (2b) — the same in mid-stream: the root first draws p = 0..3 targets (so
// the counter is anywhere before, at or after its wrap-around point), two
// goroutines draw concurrently, and after both finished the root draws once
// more. Strict rotation over all p+3 draws: every interleaving hands out
// exactly the targets (0..p+2) mod 2, so the per-target counts are determined.
//
//verif:harness engine=gobmc param.p=0..3 unwind=16 replay=none autoshared=1 queries=cut,bad,race,deadlock bmctimeout=600
func verif_harness_C15_static_midstream() {
	tr := NewStaticTargeter(Target{Method: "GET", URL: "u0"}, Target{Method: "GET", URL: "u1"})
	p := verif_param("p")
	early := [2]int64{} // the root's own draws before any goroutine exists
	for j := 0; j < p; j++ {
		var t Target
		verif_assert(tr(&t) == nil, "C15.static.no-error")
		if t.URL == "u0" {
			early[0]++
		} else {
			early[1]++
		}
	}
	count := func(t *Target) {
		if t.URL == "u0" {
			verif_ghost_add("used0", 1)
		} else {
			verif_ghost_add("used1", 1)
		}
	}
	done := make(chan struct{})
	verif_chan_name(done, "done")
	for w := 0; w < 2; w++ {
		go func() {
			var t Target
			verif_assert(tr(&t) == nil, "C15.static.no-error")
			count(&t)
			done <- struct{}{}
		}()
	}
	<-done
	<-done
	var t Target
	verif_assert(tr(&t) == nil, "C15.static.no-error")
	count(&t)
	n := int64(p + 3)
	u0, u1 := verif_ghost_add("used0", 0)+early[0], verif_ghost_add("used1", 0)+early[1]
	verif_assert(u0 == (n+1)/2 && u1 == n/2, "C15.static.strict-rotation-across-the-wrap-around")
}

// C15 (3) — T goroutines draw from one JSON stream targeter concurrently. The
// buffered reader inside the targeter is replaced by a cursor model: ReadBytes
// loads a shared position, hands out that line and stores position+1 — plain
// accesses to a declared shared variable, so the mutex of the targeter is what
// has to order them. Over every interleaving: each line is handed to exactly
// one caller, later callers get ErrNoTargets, no data race, no deadlock.
//
//verif:harness engine=gobmc param.T=2..3 param.nl=0..2 unwind=32 replay=none queries=cut,bad,race,deadlock bmctimeout=900 maxevents=80
func verif_harness_C15_json_targeter_concurrent() {
	T := verif_param("T")
	// nl = 0..2 lines, so that several callers meet the end of the input
	lines := []string{`{"method":"GET","url":"http://a/"}` + "\n", `{"method":"GET","url":"http://b/"}` + "\n"}[:verif_param("nl")]
	pos := 0
	verif_shared(&pos, "reader_position")
	verif_stub("(*bufio.Reader).ReadBytes", func(r *bufio.Reader, delim byte) ([]byte, error) {
		p := pos
		if p < 0 || p >= len(lines) {
			return nil, io.EOF
		}
		pos = p + 1
		return []byte(lines[p]), nil
	})
	tr := NewJSONTargeter(strings.NewReader(""), nil, nil)
	done := make(chan struct{})
	verif_chan_name(done, "done")
	for w := 0; w < T; w++ {
		go func() {
			var t Target
			err := tr(&t)
			switch {
			case err == ErrNoTargets:
				verif_ghost_add("exhausted", 1)
			case err != nil:
				verif_assert(false, "C15.json.unexpected-error")
			case t.URL == "http://a/":
				verif_ghost_add("got_a", 1)
			case t.URL == "http://b/":
				verif_ghost_add("got_b", 1)
			default:
				verif_assert(false, "C15.json.target-mixed-with-another")
			}
			done <- struct{}{}
		}()
	}
	for w := 0; w < T; w++ {
		<-done
	}
	nl := int64(len(lines))
	want := func(k int64) int64 {
		if nl > k && int64(T) > k {
			return 1
		}
		return 0
	}
	delivered := want(0) + want(1)
	if int64(T) < nl {
		// fewer callers than lines: the first T lines are handed out
		verif_assert(verif_ghost_add("got_a", 0)+verif_ghost_add("got_b", 0) == int64(T), "C15.json.each-target-exactly-once")
	} else {
		verif_assert(verif_ghost_add("got_a", 0) == want(0) && verif_ghost_add("got_b", 0) == want(1), "C15.json.each-target-exactly-once")
	}
	verif_assert(verif_ghost_add("exhausted", 0) == int64(T)-delivered, "C15.json.exhaustion-reported-to-later-callers")
}

// C15 (3) — two goroutines draw from one http-format targeter concurrently,
// the line scanner replaced by the same kind of cursor model (declared shared).
// The targeter's look-ahead buffer is string-typed state whose value the BMC
// does not track, so only the race and bound queries are asked: every access to
// the scanner cursor is ordered by the targeter's mutex.
//
//verif:harness engine=gobmc unwind=32 replay=none queries=cut,race bmctimeout=900 maxevents=120
func verif_harness_C15_http_targeter_race() {
	lines := []string{"GET http://a/", "GET http://b/"} // header lines make the thread trees explode (documented)
	pos := 0
	verif_shared(&pos, "scanner_position")
	cur := ""
	verif_stub("(*bufio.Scanner).Scan", func(sc *bufio.Scanner) bool {
		p := pos
		if p < 0 || p >= len(lines) {
			return false
		}
		pos = p + 1
		cur = lines[p]
		return true
	})
	verif_stub("(*bufio.Scanner).Text", func(sc *bufio.Scanner) string { return cur })
	verif_stub("(*bufio.Scanner).Err", func(sc *bufio.Scanner) error { return nil })
	tr := NewHTTPTargeter(strings.NewReader(""), nil, nil)
	done := make(chan struct{})
	verif_chan_name(done, "done")
	for w := 0; w < 2; w++ {
		go func() {
			var t Target
			_ = tr(&t)
			done <- struct{}{}
		}()
	}
	<-done
	<-done
}

// C15 (3b) — the same for a target that spans several lines (request line and
// a header line): two goroutines, race and bound queries. Reading the lines
// that belong to a target must be ordered by the targeter's mutex just like
// reading its request line.
//
//verif:harness engine=gobmc unwind=32 replay=none queries=cut,race bmctimeout=900 maxevents=200
func verif_harness_C15_http_targeter_header_race() {
	lines := []string{"GET http://a/", "X-H: 1", "GET http://b/"} // a second target, so that a caller still advances the cursor while the first consumes its header
	pos := 0
	verif_shared(&pos, "scanner_position")
	cur := ""
	// Each goroutine is explored on its own, so this plain variable is that
	// goroutine's private lower bound for the cursor: until the first data race
	// (which the query reports) the cursor never moves backwards, so assuming it
	// prunes only continuations after a race.
	seen := 0
	verif_stub("(*bufio.Scanner).Scan", func(sc *bufio.Scanner) bool {
		p := pos
		verif_assume(p >= seen)
		seen = p
		if p < 0 || p >= len(lines) {
			return false
		}
		pos = p + 1
		seen = p + 1
		cur = lines[p]
		return true
	})
	verif_stub("(*bufio.Scanner).Text", func(sc *bufio.Scanner) string { return cur })
	verif_stub("(*bufio.Scanner).Err", func(sc *bufio.Scanner) error { return nil })
	tr := NewHTTPTargeter(strings.NewReader(""), nil, nil)
	done := make(chan struct{})
	verif_chan_name(done, "done")
	for w := 0; w < 2; w++ {
		go func() {
			var t Target
			_ = tr(&t)
			done <- struct{}{}
		}()
	}
	<-done
	<-done
}
