package vegeta

import (
	"bytes"
	"encoding/gob"
	"io"
	"time"
)

var verifGobResults = []Result{
	{Attack: "a", Seq: 0, Code: 0, Timestamp: time.Unix(0, 1700000000000000001), Latency: 9 * time.Millisecond, Error: "dial: refused", Method: "GET", URL: "http://x/"},
	{Attack: "a", Seq: 1, Code: 200, Timestamp: time.Unix(0, 1700000000000000002), Latency: 0, BytesIn: 5, Body: []byte("hello"), Method: "GET", URL: "http://x/"},
	{Attack: "", Seq: 2, Code: 503, Timestamp: time.Unix(0, 1700000000000000003), Latency: 2 * time.Second, BytesOut: 3, Error: "503 Service Unavailable", Method: "POST", URL: "http://y/"},
}

// C09/C07 — vegeta's gob decoder and encoder wrappers over a model of
// encoding/gob at its API (the library's wire format is outside the claim):
// the stream holds n complete messages followed, when cut, by a torn one.
// gob.Decoder.Decode delivers a complete message by assigning only the fields
// the message transmits (zero-valued fields are not transmitted) and fails on
// the torn tail without touching its argument, which is gob's documented
// behaviour. Each call of the vegeta Decoder with a fresh Result returns
// exactly the next written record — no field of an earlier record, no storage
// shared with one — then the error; the Encoder hands each result to gob once.
//
//verif:harness unwind=64 replay=none
func verif_harness_C09_gob_wrappers() { verifGobWrappers() }

// The same harness registered for C07: over the gob API model, vegeta's gob
// Encoder/Decoder wrappers round-trip every record of a heterogeneous stream
// (each decoded Result equals the one encoded, field by field, including the
// fields gob does not transmit because they are zero).
//
//verif:harness unwind=64 replay=none
func verif_harness_C07_gob_wrappers() { verifGobWrappers() }

func verifGobWrappers() {
	if !verif_is_symbolic_run() {
		return
	}
	n := verif_choose("complete_records", 4)
	first := verif_choose("first", 3)
	torn := verif_nondet_bool("torn_tail")
	recs := make([]Result, n)
	for k := range recs {
		recs[k] = verifGobResults[(first+k)%3]
	}
	next := 0
	verif_stub("encoding/gob.NewDecoder", func(r io.Reader) *gob.Decoder { return &gob.Decoder{} })
	verif_stub("(*encoding/gob.Decoder).Decode", func(d *gob.Decoder, e interface{}) error {
		r, ok := e.(*Result)
		verif_assert(ok && r != nil, "C09.gob.decodes-into-a-result")
		if next >= len(recs) {
			if torn {
				return io.ErrUnexpectedEOF
			}
			return io.EOF
		}
		s := recs[next]
		next++
		if s.Attack != "" {
			r.Attack = s.Attack
		}
		if s.Seq != 0 {
			r.Seq = s.Seq
		}
		if s.Code != 0 {
			r.Code = s.Code
		}
		if !s.Timestamp.IsZero() {
			r.Timestamp = s.Timestamp
		}
		if s.Latency != 0 {
			r.Latency = s.Latency
		}
		if s.BytesOut != 0 {
			r.BytesOut = s.BytesOut
		}
		if s.BytesIn != 0 {
			r.BytesIn = s.BytesIn
		}
		if s.Error != "" {
			r.Error = s.Error
		}
		if len(s.Body) != 0 {
			r.Body = append(r.Body[:0], s.Body...) // gob reuses the destination's storage
		}
		if s.Method != "" {
			r.Method = s.Method
		}
		if s.URL != "" {
			r.URL = s.URL
		}
		return nil
	})
	dec := NewDecoder(bytes.NewReader(nil))
	got := make([]Result, 0, n)
	for k := 0; k < n; k++ {
		var r Result
		verif_assert(dec.Decode(&r) == nil, "C09.gob.complete-record-decodes")
		got = append(got, r)
	}
	for k := range got {
		verif_assert(got[k].Equal(recs[k]), "C09.gob.record-is-exactly-the-one-written")
	}
	var tail Result
	err := dec.Decode(&tail)
	verif_assert(err != nil, "C09.gob.end-or-error-after-the-last-complete-record")
	verif_assert(tail.Equal(Result{}), "C09.gob.torn-tail-yields-no-partly-filled-record")

	// encoder: one gob message per result, the result itself
	var sent []Result
	verif_stub("encoding/gob.NewEncoder", func(w io.Writer) *gob.Encoder { return &gob.Encoder{} })
	verif_stub("(*encoding/gob.Encoder).Encode", func(en *gob.Encoder, e interface{}) error {
		r, ok := e.(*Result)
		verif_assert(ok && r != nil, "C09.gob.encodes-a-result")
		if ok && r != nil {
			sent = append(sent, *r)
		}
		return nil
	})
	enc := NewEncoder(io.Discard)
	for k := range recs {
		verif_assert(enc.Encode(&recs[k]) == nil, "C09.gob.encode-no-error")
		verif_assert(len(sent) == k+1 && sent[k].Equal(recs[k]), "C09.gob.one-whole-message-per-encode-call")
	}
}
