package vegeta

import (
	"errors"
	"time"
)

// verifAttackSetup builds an Attacker with symbolic worker limits and installs
// the environment models shared by the C02/C03 harnesses: the pacer releases at
// most N hits (arbitrary waits, may stop at any call), the clock is an
// arbitrary non-decreasing reading, and (*Attacker).hit is replaced by a model
// with the same interface to the rest of the attack: it takes the next
// sequence number atomically (the real critical section is C05's subject),
// may report a targeter failure (then it calls Stop, like the real code) and
// returns one result.
func verifAttackSetup(N int, maxW uint64) (*Attacker, *verifPacer, Targeter) {
	a := &Attacker{stopch: make(chan struct{}), maxBody: -1}
	a.workers = verif_nondet_u64("workers")
	a.maxWorkers = verif_nondet_u64("max_workers")
	verif_assume(a.workers <= maxW && a.maxWorkers >= 1 && a.maxWorkers <= maxW)
	verif_chan_name(a.stopch, "stop")

	pacer := &verifPacer{limit: N}
	verif_stub("time.Now", func() time.Time { return time.Unix(0, 1000) })
	// the clock: arbitrary non-decreasing readings
	verif_stub("time.Since", func(t time.Time) time.Duration {
		// C04: elapsed time is measured from the instant the attack began
		verif_assert(t.Equal(time.Unix(0, 1000)), "C04.elapsed-is-measured-from-the-start-of-the-attack")
		e := time.Duration(verif_nondet_i64("elapsed"))
		verif_assume(e >= pacer.clock && e < time.Duration(verif_time_bound()))
		pacer.clock = e
		pacer.fresh = true
		return e
	})
	// C04: the loop sleeps exactly the wait the pacer returned for this hit,
	// once, before the hit is released
	verif_stub("time.Sleep", func(d time.Duration) {
		verif_assert(pacer.asked && !pacer.stopped, "C04.sleep-follows-a-pace-that-did-not-stop")
		verif_assert(d == pacer.wait, "C04.sleeps-exactly-the-returned-wait")
		pacer.asked = false
		verif_ghost_add("released", 1)
	})
	verif_stub("(*github.com/tsenart/vegeta/v12/lib.Attacker).hit", func(a *Attacker, tr Targeter, atk *attack) *Result {
		// the counters change atomically with the reception of the tick
		seq := verif_ghost_add("started", 1) - 1
		busy := verif_ghost_add("busy", 1)
		released := verif_ghost_add("released", 0)
		// C04: at no moment have more hits started than the pacer has released
		verif_assert(seq+1 <= released, "C04.no-hit-starts-before-its-wait-was-slept")
		verif_assert(busy <= int64(a.maxWorkers), "C03.in-flight-never-exceeds-max-workers")
		res := &Result{Seq: uint64(seq)}
		if verif_nondet_bool("targeter_fails") {
			a.Stop()
			res.Error = "targeter failed"
		}
		return res
	})
	tr := Targeter(func(t *Target) error { return errors.New("unused: hit is modelled") })
	return a, pacer, tr
}

// verifPacer releases at most limit hits with arbitrary waits and may stop at
// any call.
type verifPacer struct {
	limit, paces int
	clock        time.Duration // latest clock reading handed to the loop
	wait         time.Duration // wait returned by the latest Pace call
	asked        bool          // a Pace call is waiting for its Sleep
	stopped      bool
	fresh        bool // the clock was read since the last Pace call
	du           time.Duration
}

func (p *verifPacer) Pace(elapsed time.Duration, hits uint64) (time.Duration, bool) {
	// C04: consulted once per hit with the true number of hits released so far
	// and the elapsed time just read from the clock; never after a stop, never
	// once more than the duration has elapsed
	verif_assert(!p.stopped && !p.asked, "C04.pacer-consulted-once-per-hit-and-not-after-stop")
	verif_assert(int64(hits) == verif_ghost_add("started", 0), "C04.pacer-sees-the-true-hit-count")
	verif_assert(elapsed == p.clock && p.fresh, "C04.pacer-sees-the-elapsed-time-just-read")
	p.fresh = false // the next consultation needs a clock reading of its own
	verif_assert(!(p.du > 0 && elapsed > p.du), "C04.pacer-not-consulted-after-the-duration")
	if p.paces >= p.limit {
		p.stopped = true
		return 0, true
	}
	p.paces++
	p.wait = time.Duration(verif_nondet_i64("wait"))
	tb := time.Duration(verif_time_bound()) // 2^14 while no constant of the code needs more than 16 bits, else 2^40
	verif_assume(p.wait > -tb && p.wait < tb)
	if verif_nondet_bool("pacer_stops") {
		p.stopped = true
		return p.wait, true
	}
	p.asked = true
	return p.wait, false
}

func (p *verifPacer) Rate(time.Duration) float64 { return 0 }

// C02/C03 — the whole attack as a bounded model-checking problem: the threads
// are the caller (which starts the attack, then consumes results until the
// channel is closed), the pacing goroutine, up to W workers and E concurrent
// Stop callers; the schedule is chosen by the solver. Checked over every
// interleaving within the bound: no send on / close of a closed channel, no
// negative WaitGroup; every started hit delivers exactly one result with a
// distinct sequence number < the number of started hits and nothing is in
// flight when the channel closes; in-flight <= max-workers at every instant;
// at most one of the concurrent Stop calls reports that it initiated the stop;
// no deadlock and no goroutine left behind.
//
//verif:harness engine=gobmc param.N=1..1 unwind=16 replay=none bmctimeout=1500 thorough.bmctimeout=6000
func verif_harness_C02_attack() {
	verifAttackBMC()
}

// C03 — the same model, registered for the in-flight bound: the assertion
// "in flight <= max-workers" is checked after every increment of the in-flight
// counter, and the number of worker goroutines can never exceed the modelled
// instances (= the largest max-workers value), which the "cut" query shows.
//
//verif:harness engine=gobmc param.N=1..1 unwind=16 replay=none bmctimeout=1500 queries=cut,bad,growth:_attack_:busy:n_max_workers_0 thorough.bmctimeout=6000
func verif_harness_C03_attack() {
	verifAttackBMC()
}

// C04 — the same model, registered for the pacing obligations (assertions in
// the pacer, sleep and hit models).
//
//verif:harness engine=gobmc param.N=1..1 unwind=16 replay=none bmctimeout=1500 queries=cut,bad thorough.bmctimeout=6000
func verif_harness_C04_attack() {
	verifAttackBMC()
}

// C03 — the cap itself with more released hits than the cap allows: max-workers
// is 1 (initial workers 0..2, so the clamp matters), two hits are released, and
// at most one may be in flight at any instant.
//
//verif:harness engine=gobmc param.N=2..2 param.workers=0..2 unwind=16 replay=none bmctimeout=1500 queries=cut,bad,growth:_attack_:busy:n_max_workers_0 thorough.bmctimeout=6000
func verif_harness_C03_cap_one() {
	// the number of initial workers is fixed per instance (0, 1, 2), so that
	// anything sized by it — a channel buffer, say — has one size per model
	verifAttackBMCWith(1, int64(verif_param("workers")))
}

// C04 — two released hits with the worker cap reached (max-workers 1, one
// initial worker): the second hit's wait is slept exactly as returned, however
// long the first release waited for a free worker, and the second hit does not
// start before it.
//
// Thorough tier only (4 min): the quick range of N is empty.
//
//verif:harness engine=gobmc param.N=2..1 thorough.param.N=2..2 unwind=16 replay=none bmctimeout=1500 queries=cut,bad thorough.bmctimeout=6000
func verif_harness_C04_two_hits_cap_one() {
	verifAttackBMCWith(1, 1)
}

// C03 — the boundary value workers=0 (held concretely, so that anything
// counted by it has a concrete trip count), max-workers 1, one released hit:
// the hit gets a worker — free capacity is used — and at most one is in flight.
//
//verif:harness engine=gobmc param.N=1..1 unwind=16 replay=none bmctimeout=1500 queries=cut,bad,growth:_attack_:busy:n_max_workers_0 thorough.bmctimeout=6000
func verif_harness_C03_zero_initial_workers() {
	verifAttackBMCWith(1, -2)
}

func verifAttackBMC() { verifAttackBMCWith(0, -1) }

func verifAttackBMCWith(fixedMax uint64, fixedWorkers int64) {
	N := verif_param("N")
	W := uint64(2)
	a, pacer, tr := verifAttackSetup(N, W)
	if fixedMax > 0 {
		verif_assume(a.maxWorkers == fixedMax)
	}
	if fixedWorkers >= 0 {
		verif_assume(a.workers == uint64(fixedWorkers))
	}
	if fixedWorkers == -2 {
		verif_assume(a.workers == 0)
		a.workers = 0
	}
	du := time.Duration(verif_nondet_i64("duration"))
	tb := time.Duration(verif_time_bound())
	verif_assume(du > -tb && du < tb)
	pacer.du = du

	results := a.Attack(tr, pacer, du, "atk")
	verif_chan_name(results, "results")
	verif_chan_codec(results, func(r *Result) uint64 { return r.Seq }, func(seq uint64) *Result { return &Result{Seq: seq} })

	// one caller stops the attack at an arbitrary moment (two racing callers
	// are the subject of verif_harness_C02_stop_once)
	go func() { a.Stop() }()

	seen := make([]bool, N)
	got := int64(0)
	for k := 0; ; k++ {
		r, ok := <-results
		if !ok {
			break
		}
		verif_assert(k < N, "C02.no-result-without-a-started-hit")
		if k >= N {
			return
		}
		verif_ghost_add("busy", -1)
		verif_assert(r.Seq < uint64(N), "C02.sequence-number-in-range")
		for s := 0; s < N; s++ {
			if r.Seq == uint64(s) {
				verif_assert(!seen[s], "C02.no-duplicate-sequence-number")
				seen[s] = true
			}
		}
		got++
	}
	started := verif_ghost_add("started", 0)
	verif_assert(got == started, "C02.every-started-hit-delivered-before-close")
	for s := 0; s < N; s++ {
		if int64(s) < started {
			verif_assert(seen[s], "C02.sequence-numbers-without-gap")
		}
	}
}

// C02 — among all Stop calls, concurrent or not, exactly one reports that it
// initiated the stop: three concurrent callers plus one call after they are
// done, every interleaving.
//
//verif:harness engine=gobmc unwind=16 replay=none bmctimeout=600
func verif_harness_C02_stop_once() {
	a := &Attacker{stopch: make(chan struct{})}
	verif_chan_name(a.stopch, "stop")
	for e := 0; e < 3; e++ {
		go func() {
			if a.Stop() {
				n := verif_ghost_add("stops_reporting_true", 1)
				verif_assert(n <= 1, "C02.only-one-Stop-reports-initiating-the-stop")
			}
			verif_ghost_add("stops_done", 1)
		}()
	}
	// a late caller
	if a.Stop() {
		n := verif_ghost_add("stops_reporting_true", 1)
		verif_assert(n <= 1, "C02.only-one-Stop-reports-initiating-the-stop")
	}
	if verif_ghost_add("stops_done", 0) == 3 {
		verif_assert(verif_ghost_add("stops_reporting_true", 0) == 1, "C02.some-Stop-reports-initiating-the-stop")
	}
}

// C02 — Stop calls before and after the end of an attack: the caller stops the
// attack (or the pacer ends it first), consumes the results until the channel
// is closed, and calls Stop again while the attack's own final Stop may or may
// not have run yet: never do both of the caller's calls report that they
// initiated the stop. The pacer releases no hit, so the model is the attack's
// start and its epilogue.
//
//verif:harness engine=gobmc param.N=0..0 unwind=16 replay=none bmctimeout=600
func verif_harness_C02_stop_before_and_after_the_end() {
	a, pacer, tr := verifAttackSetup(verif_param("N"), 1)
	verif_assume(a.workers == 0)
	results := a.Attack(tr, pacer, 0, "atk")
	verif_chan_name(results, "results")
	verif_chan_codec(results, func(r *Result) uint64 { return r.Seq }, func(seq uint64) *Result { return &Result{Seq: seq} })
	first := a.Stop()
	for range results {
		verif_assert(false, "C02.no-result-without-a-started-hit")
	}
	second := a.Stop()
	verif_assert(!(first && second), "C02.only-one-Stop-reports-initiating-the-stop")
}

// C03 — the limits the attack works with are the configured ones: whatever
// the order in which the Workers and MaxWorkers options are given, the attacker
// holds exactly those two values (the clamp of the initial workers to the
// maximum happens inside Attack, where the BMC harnesses see it).
//
//verif:harness unwind=16
func verif_harness_C03_options_independent() {
	w, m := verif_nondet_u64("workers"), verif_nondet_u64("max_workers")
	var a *Attacker
	if verif_nondet_bool("max_workers_first") {
		a = NewAttacker(MaxWorkers(m), Workers(w))
	} else {
		a = NewAttacker(Workers(w), MaxWorkers(m))
	}
	verif_assert(a.workers == w && a.maxWorkers == m, "C03.options.workers-and-max-workers-are-what-was-configured")
}
