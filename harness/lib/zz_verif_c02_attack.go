package vegeta

import (
	"errors"
	"time"
)

// verifAttackSetup builds an Attacker with symbolic worker limits and installs
// the environment models shared by the C02/C03 harnesses: the pacer releases at
// most N hits (arbitrary waits, may stop at any call), the clock is an
// arbitrary non-decreasing reading, and (*Attacker).hit is replaced by a model
// with the same interface to the rest of the attack: it takes the next
// sequence number atomically (the real critical section is C05's subject),
// may report a targeter failure (then it calls Stop, like the real code) and
// returns one result.
func verifAttackSetup(N int, maxW uint64) (*Attacker, Pacer, Targeter) {
	a := &Attacker{stopch: make(chan struct{}), maxBody: -1}
	a.workers = verif_nondet_u64("workers")
	a.maxWorkers = verif_nondet_u64("max_workers")
	verif_assume(a.workers <= maxW && a.maxWorkers >= 1 && a.maxWorkers <= maxW)
	verif_chan_name(a.stopch, "stop")

	verif_stub("time.Now", func() time.Time { return time.Unix(0, 1000) })
	verif_stub("time.Since", func(t time.Time) time.Duration { return time.Duration(verif_nondet_i64("elapsed")) })
	verif_stub("time.Sleep", func(d time.Duration) {})
	verif_stub("(*github.com/tsenart/vegeta/v12/lib.Attacker).hit", func(a *Attacker, tr Targeter, atk *attack) *Result {
		seq := verif_ghost_add("started", 1) - 1
		busy := verif_ghost_add("busy", 1)
		verif_assert(busy <= int64(a.maxWorkers), "C03.in-flight-never-exceeds-max-workers")
		res := &Result{Seq: uint64(seq)}
		if verif_nondet_bool("targeter_fails") {
			a.Stop()
			res.Error = "targeter failed"
		}
		return res
	})
	pacer := &verifPacer{limit: N}
	tr := Targeter(func(t *Target) error { return errors.New("unused: hit is modelled") })
	return a, pacer, tr
}

// verifPacer releases at most limit hits with arbitrary waits and may stop at
// any call.
type verifPacer struct{ limit, paces int }

func (p *verifPacer) Pace(elapsed time.Duration, hits uint64) (time.Duration, bool) {
	if p.paces >= p.limit {
		return 0, true
	}
	p.paces++
	return time.Duration(verif_nondet_i64("wait")), verif_nondet_bool("pacer_stops")
}

func (p *verifPacer) Rate(time.Duration) float64 { return 0 }

// C02/C03 — the whole attack as a bounded model-checking problem: the threads
// are the caller (which starts the attack, then consumes results until the
// channel is closed), the pacing goroutine, up to W workers and E concurrent
// Stop callers; the schedule is chosen by the solver. Checked over every
// interleaving within the bound: no send on / close of a closed channel, no
// negative WaitGroup; every started hit delivers exactly one result with a
// distinct sequence number < the number of started hits and nothing is in
// flight when the channel closes; in-flight <= max-workers at every instant;
// at most one of the concurrent Stop calls reports that it initiated the stop;
// no deadlock and no goroutine left behind.
//
//verif:harness engine=gobmc param.N=1..1 unwind=16 replay=none bmctimeout=1500 thorough.bmctimeout=6000
func verif_harness_C02_attack() {
	verifAttackBMC()
}

// C03 — the same model, registered for the in-flight bound: the assertion
// "in flight <= max-workers" is checked after every increment of the in-flight
// counter, and the number of worker goroutines can never exceed the modelled
// instances (= the largest max-workers value), which the "cut" query shows.
//
//verif:harness engine=gobmc param.N=1..1 unwind=16 replay=none bmctimeout=1500 queries=cut,bad thorough.bmctimeout=6000
func verif_harness_C03_attack() {
	verifAttackBMC()
}

func verifAttackBMC() {
	N := verif_param("N")
	W := uint64(2)
	a, pacer, tr := verifAttackSetup(N, W)
	du := time.Duration(verif_nondet_i64("duration"))

	results := a.Attack(tr, pacer, du, "atk")
	verif_chan_name(results, "results")
	verif_chan_codec(results, func(r *Result) uint64 { return r.Seq }, func(seq uint64) *Result { return &Result{Seq: seq} })

	for e := 0; e < 2; e++ {
		go func() {
			if a.Stop() {
				n := verif_ghost_add("stops_reporting_true", 1)
				verif_assert(n <= 1, "C02.only-one-Stop-reports-initiating-the-stop")
			}
		}()
	}

	seen := make([]bool, N)
	got := int64(0)
	for k := 0; ; k++ {
		r, ok := <-results
		if !ok {
			break
		}
		verif_assert(k < N, "C02.no-result-without-a-started-hit")
		if k >= N {
			return
		}
		verif_ghost_add("busy", -1)
		verif_assert(r.Seq < uint64(N), "C02.sequence-number-in-range")
		for s := 0; s < N; s++ {
			if r.Seq == uint64(s) {
				verif_assert(!seen[s], "C02.no-duplicate-sequence-number")
				seen[s] = true
			}
		}
		got++
	}
	started := verif_ghost_add("started", 0)
	verif_assert(got == started, "C02.every-started-hit-delivered-before-close")
	for s := 0; s < N; s++ {
		if int64(s) < started {
			verif_assert(seen[s], "C02.sequence-numbers-without-gap")
		}
	}
}
