package vegeta

import (
	"bytes"
	"errors"
	"io"
	"net"
	"net/http"
	"net/url"
	"syscall"
	"time"
)

// verifBody is the response body model: n bytes delivered in arbitrary chunk
// sizes, optionally failing after failAt bytes; it records how far it was read
// and whether it was closed.
type verifBody struct {
	data   []byte
	pos    int
	failAt int // -1: never fails
	sawEnd bool
	closed bool
}

var errVerifRead = errors.New("model: connection reset while reading the body")

func (b *verifBody) Read(p []byte) (int, error) {
	if b.failAt >= 0 && b.pos >= b.failAt {
		b.sawEnd = true
		return 0, errVerifRead
	}
	if b.pos >= len(b.data) {
		b.sawEnd = true
		return 0, io.EOF
	}
	if len(p) == 0 {
		return 0, nil
	}
	max := len(b.data) - b.pos
	if b.failAt >= 0 && b.failAt-b.pos < max {
		max = b.failAt - b.pos
	}
	if len(p) < max {
		max = len(p)
	}
	n := 1 + verif_choose("body_chunk", max)
	copy(p, b.data[b.pos:b.pos+n])
	b.pos += n
	return n, nil
}

func (b *verifBody) Close() error {
	b.closed = true
	return nil
}

// C06 / C05(2) — one call of the real (*Attacker).hit with a model of the
// HTTP client: every target shape listed below, every max-body setting -1..3,
// every response (symbolic status 100..599, 0..3 symbolic body bytes in
// arbitrary chunks) and every fault point (transport error, body read error
// after k bytes). The clock is an arbitrary non-decreasing reading.
//
//verif:harness unwind=64 replay=none
func verif_harness_C06_hit_request_side() { verifC06Hit(true) }

// The same harness with the target fixed to its richest shape and the
// response side (max-body, status, body size, chunking, faults) fully varied.
//
//verif:harness unwind=64 replay=none
func verif_harness_C06_hit_response_side() { verifC06Hit(false) }

// The same harness registered for C04: a released hit enters the transport
// exactly once on every exit path (the BMC harnesses replace hit by a model,
// so what hit itself does with the release is checked here).
//
//verif:harness unwind=64 replay=none
func verif_harness_C04_hit_enters_transport_once() { verifC06Hit(false) }

// The same harness registered for C05: its timestamp/latency obligations
// (timestamp between attack start and transport entry, latency covers the
// transport time on every exit path) are part of that property.
//
//verif:harness unwind=64 replay=none
func verif_harness_C05_hit_timestamps() { verifC06Hit(false) }

func verifC06Hit(requestSide bool) {
	if !verif_is_symbolic_run() {
		return
	}
	pick := func(name string, n int, fixed int, vary bool) int {
		if vary {
			return verif_choose(name, n)
		}
		return fixed
	}
	a := &Attacker{stopch: make(chan struct{})}
	a.client.Timeout = DefaultTimeout                           // as NewAttacker configures it
	a.maxBody = int64(pick("max_body", 5, 2, !requestSide)) - 1 // -1, 0, 1, 2, 3
	a.chunked = verif_nondet_bool("chunked")
	atk := &attack{name: []string{"", "load-test"}[pick("attack_name", 2, 1, requestSide)], began: time.Unix(0, 1000)}

	// clock: readings never decrease
	now := int64(1000)
	tick := func() int64 {
		d := verif_nondet_i64("clock_step")
		verif_assume(d >= 0 && d < 1<<40)
		now += d
		return now
	}
	verif_stub("time.Now", func() time.Time { return time.Unix(0, tick()) })

	// the target
	tgt := Target{Method: []string{"GET", "POST"}[pick("method", 2, 1, requestSide)], URL: "http://host.example/path?q=1"}
	nbody := pick("target_body_len", 3, 2, requestSide)
	if nbody > 0 {
		tgt.Body = verif_nondet_bytes("target_body", nbody)
	}
	switch pick("target_header", 5, 3, requestSide) {
	case 1:
		tgt.Header = http.Header{"Host": {"virtual.example"}}
	case 2:
		tgt.Header = http.Header{"host": {"lower.example"}}
	case 3:
		tgt.Header = http.Header{"X-a": {"1", "2"}, "x-A": {"3"}}
	case 4:
		tgt.Header = http.Header{}
	}
	origHeader := verifHeaderSnapshot(tgt.Header)

	// the exchange
	var seen *http.Request
	var sentBody []byte
	var tEntry, tExit int64
	body := &verifBody{failAt: -1}
	transportFails := !requestSide && verif_nondet_bool("transport_fails")
	// a transport failure may come with the last response received (its body
	// already closed), as the redirect limit does
	failsWithResponse := transportFails && verif_nondet_bool("failure_carries_last_response")
	// Content-Length as the transport reports it: unknown (-1), the body's
	// length, or a declared length with no body at all (a HEAD response)
	contentLength := int64(-1)
	status := verif_nondet_int("status")
	verif_assume(status >= 100 && status <= 599)
	respHeader := http.Header{"Content-Type": {"text/plain"}, "X-Multi": {"a", "b"}}
	if !transportFails {
		n := pick("response_body_len", 4, 2, !requestSide)
		body.data = verif_nondet_bytes("response_body", n)
		if !requestSide && verif_nondet_bool("read_fails") {
			body.failAt = verif_choose("read_fails_after", n+1)
		}
		switch pick("content_length", 3, 0, !requestSide) {
		case 1:
			contentLength = int64(n)
		case 2:
			contentLength = int64(n) + 1 + int64(verif_choose("declared_beyond_body", 2))
		}
	}
	transportErrKind := 0
	if transportFails && !failsWithResponse {
		transportErrKind = verif_choose("transport_error_kind", 4)
	}
	doCalls := 0
	verif_stub("(*net/http.Client).Do", func(c *http.Client, req *http.Request) (*http.Response, error) {
		doCalls++
		if doCalls > 1 {
			return nil, errors.New("model: second transport entry")
		}
		tEntry = tick()
		seen = req
		if req.Body != nil {
			sentBody, _ = io.ReadAll(req.Body)
		}
		// mutate what the transport was given: the target must not be affected
		for k := range req.Header {
			req.Header[k][0] = "overwritten-by-transport"
		}
		tExit = tick()
		if failsWithResponse {
			body.closed, body.sawEnd = true, true
			return &http.Response{StatusCode: status, Status: "status text", Header: respHeader, Body: body, ContentLength: contentLength}, errors.New("model: stopped after 10 redirects")
		}
		if transportFails {
			// the kinds of error a transport reports: a plain one, a reset or
			// broken pipe of a pooled connection, an unexpected end of stream
			switch transportErrKind {
			case 1:
				return nil, &url.Error{Op: "Post", URL: tgt.URL, Err: &net.OpError{Op: "read", Net: "tcp", Err: syscall.ECONNRESET}}
			case 2:
				return nil, &url.Error{Op: "Post", URL: tgt.URL, Err: &net.OpError{Op: "write", Net: "tcp", Err: syscall.EPIPE}}
			case 3:
				return nil, &url.Error{Op: "Post", URL: tgt.URL, Err: io.EOF}
			}
			return nil, errors.New("model: dial tcp: connection refused")
		}
		return &http.Response{StatusCode: status, Status: "status text", Header: respHeader, Body: body, ContentLength: contentLength}, nil
	})

	res := a.hit(func(t *Target) error { *t = tgt; return nil }, atk)

	// ---- the request that reached the transport ----
	verif_assert(seen != nil, "C06.request-reaches-the-transport")
	if seen == nil {
		return
	}
	// C04/C05/C06: one hit is one exchange — the transport is entered exactly
	// once per released hit, whatever the outcome (no silent retry, which
	// would be a request the pacer never released)
	verif_assert(doCalls == 1, "C06.one-transport-entry-per-hit")
	verif_assert(seen.Method == tgt.Method && seen.URL.String() == tgt.URL, "C06.request-method-and-url")
	verif_assert(bytes.Equal(sentBody, tgt.Body) && seen.ContentLength == int64(len(tgt.Body)), "C06.request-body")
	verif_assert((seen.Body == nil) == (len(tgt.Body) == 0), "C06.empty-body-is-no-body")
	for k, vs := range origHeader {
		got := seen.Header[k]
		verif_assert(len(got) == len(vs), "C06.request-headers-keep-their-letter-case-and-multiplicity")
		verif_assert(len(tgt.Header[k]) == len(vs) && tgt.Header[k][0] == vs[0], "C06.target-headers-are-copied-not-shared")
	}
	if _, has := origHeader["Host"]; has {
		verif_assert(seen.Host == "virtual.example", "C06.host-header-sets-the-request-host")
	} else {
		verif_assert(seen.Host == "host.example", "C06.request-host-from-url")
	}
	seqs := seen.Header["X-Vegeta-Seq"]
	verif_assert(len(seqs) == 1 && res.Seq == 0, "C06.sequence-header-matches-the-result")
	names := seen.Header["X-Vegeta-Attack"]
	if atk.name == "" {
		verif_assert(len(names) == 0, "C06.no-attack-header-without-a-name")
	} else {
		verif_assert(len(names) == 1, "C06.attack-header-present")
	}
	verif_assert((len(seen.TransferEncoding) == 1 && seen.TransferEncoding[0] == "chunked") == a.chunked && len(seen.TransferEncoding) <= 1, "C06.chunked-iff-configured")

	// ---- the result ----
	verif_assert(res.Method == tgt.Method && res.URL == tgt.URL && res.Attack == atk.name, "C06.result-method-url-attack")
	// C05 (2): timestamp and latency relations on every exit path
	ts := res.Timestamp.UnixNano()
	verif_assert(ts >= 1000 && ts <= tEntry, "C05.timestamp-between-attack-start-and-transport-entry")
	verif_assert(int64(res.Latency) >= tExit-tEntry && tExit-tEntry >= 0, "C05.latency-covers-the-transport-time")
	verif_assert(res.End().Equal(res.Timestamp.Add(res.Latency)), "C05.end-is-timestamp-plus-latency")

	failed := transportFails || body.failAt >= 0
	if transportFails {
		verif_assert(res.Error != "", "C06.failed-exchange-has-error")
		verif_assert(res.Code < 200 || res.Code >= 400, "C06.failed-exchange-never-has-a-success-status")
		if !failsWithResponse {
			verif_assert(res.Code == 0, "C06.failed-exchange-has-error-and-no-status")
		}
		return
	}
	verif_assert(body.closed, "C06.response-body-closed")
	verif_assert(body.sawEnd, "C06.response-body-read-to-its-end-or-error")
	// captured body: the first max-body bytes that could be read
	avail := len(body.data)
	if body.failAt >= 0 && body.failAt < avail {
		avail = body.failAt
	}
	want := avail
	if a.maxBody >= 0 && int(a.maxBody) < want {
		want = int(a.maxBody)
	}
	readErrorHit := body.failAt >= 0 && (a.maxBody < 0 || int(a.maxBody) > body.failAt || true)
	_ = readErrorHit
	if failed {
		verif_assert(res.Error != "", "C06.failed-exchange-has-error")
		verif_assert(res.Code < 200 || res.Code >= 400, "C06.failed-exchange-never-has-a-success-status")
		verif_assert(res.BytesIn == uint64(len(res.Body)), "C06.bytes-in-equals-captured-length")
		return
	}
	verif_assert(len(res.Body) == want && bytes.Equal(res.Body, body.data[:want]), "C06.body-is-the-first-max-body-bytes")
	verif_assert(res.BytesIn == uint64(len(res.Body)), "C06.bytes-in-equals-captured-length")
	verif_assert(res.BytesOut == uint64(len(tgt.Body)), "C06.bytes-out-equals-request-body-length")
	verif_assert(res.Code == uint16(status), "C06.status-code")
	ok := status >= 200 && status < 400
	verif_assert((res.Error == "") == ok, "C06.error-empty-exactly-for-2xx-3xx")
	if !ok {
		verif_assert(res.Error == "status text", "C06.error-is-the-status-text")
	}
	verif_assert(len(res.Headers) == 2 && len(res.Headers["X-Multi"]) == 2, "C06.response-headers")
}

// C06 — redirect policy: for every limit n and chain length.
//
//verif:harness unwind=16
func verif_harness_C06_redirects() {
	n := verif_choose("limit", 5) - 1 // -1 (NoFollow), 0, 1, 2, 3
	hops := verif_choose("hops", 5)
	a := &Attacker{}
	Redirects(n)(a)
	via := make([]*http.Request, hops)
	err := a.client.CheckRedirect(nil, via)
	switch {
	case n == NoFollow:
		verif_assert(err == http.ErrUseLastResponse, "C06.no-follow-uses-the-last-response")
	case n < hops:
		verif_assert(err != nil && err != http.ErrUseLastResponse, "C06.redirect-limit-is-an-error")
	default:
		verif_assert(err == nil, "C06.redirects-below-the-limit-followed")
	}
}
