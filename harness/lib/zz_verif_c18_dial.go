package vegeta

import (
	"context"
	"errors"
	"math/rand"
	"net"
	"net/http"
	"time"

	"github.com/rs/dnscache"
)

var verifIPs = []string{"10.0.0.1", "10.0.0.2", "fd00::1", "fd00::2", "not-an-ip"}

func verifIsV4(s string) (valid, v4 bool) {
	switch s {
	case "10.0.0.1", "10.0.0.2", "10.0.9.1", "10.0.9.2":
		return true, true
	case "fd00::1", "fd00::2", "fd09::1", "fd09::2":
		return true, false
	}
	return false, false
}

// C18 (1) — firstOfEachIPFamily returns the first address of each family in
// order and leaves its argument's elements untouched (the argument is the DNS
// cache's own slice).
//
//verif:harness param.n=0..4 thorough.param.n=0..6 unwind=32
func verif_harness_C18_first_of_each_family() {
	n := verif_param("n")
	ips := make([]string, n)
	for i := range ips {
		ips[i] = verifIPs[verif_choose("ip", len(verifIPs))]
	}
	orig := append([]string(nil), ips...)
	out := firstOfEachIPFamily(ips)

	// reference: first valid address, then the first later one of the other family
	var want []string
	var firstV4 bool
	for _, s := range orig {
		valid, v4 := verifIsV4(s)
		if !valid {
			continue
		}
		if len(want) == 0 {
			want, firstV4 = append(want, s), v4
		} else if len(want) == 1 && v4 != firstV4 {
			want = append(want, s)
		}
	}
	verif_assert(len(out) == len(want), "C18.family.one-per-family")
	for i := 0; i < len(out) && i < len(want); i++ {
		verif_assert(out[i] == want[i], "C18.family.first-of-each-in-order")
	}
	for i := range orig {
		verif_assert(ips[i] == orig[i], "C18.family.input-not-altered")
	}
}

// C18 (2) — the DNSCaching dial function: the resolver model returns THE SAME
// slice on every lookup (that is what dnscache does), the shuffle is an
// arbitrary Fisher–Yates permutation, the underlying dial records addresses.
// After d dials the cached slice still holds the resolved set, every dialled
// address is a member of it, and at most one per family is dialled per call.
// Goroutines of the happy-eyeballs race run to completion at spawn (the dial
// model does not block; the assertions do not depend on the schedule).
//
//verif:harness param.n=1..3 thorough.param.n=1..3 unwind=32 replay=none
func verif_harness_C18_dns_caching_dial() { verifDNSCachingDial(false) }

// C18 (2b) — the same with a refresh of the record set between two dials, as a
// TTL expiry gives: the resolver then returns another slice of the same length
// with other addresses (same families). Every dial after the refresh goes to an
// address of the current record set, none to a retired one.
//
//verif:harness param.n=1..3 unwind=32 replay=none
func verif_harness_C18_dns_refreshed_record_set() { verifDNSCachingDial(true) }

func verifDNSCachingDial(refresh bool) {
	n := verif_param("n")
	dials := 2
	if verif_thorough() {
		dials = 3
	}
	resolved := make([]string, n)
	pool := []string{"10.0.0.1", "10.0.0.2", "fd00::1", "fd00::2"}
	first := verif_choose("first", 4)
	cfg := []string{"set0:", "set1:", "set2:", "set3:"}[first]
	for i := range resolved {
		resolved[i] = pool[(first+i)%4]
	}
	cache := append([]string(nil), resolved...) // the cache entry shared by all lookups

	var dialled [][]string
	var cur []string
	if verif_is_symbolic_run() {
		verif_stub("time.Now", func() time.Time { return time.Unix(0, 1) })
		verif_stub("math/rand.NewSource", func(seed int64) rand.Source { return nil })
		verif_stub("math/rand.New", func(src rand.Source) *rand.Rand { return &rand.Rand{} })
		// any other way of drawing from the generator: every value in range
		verif_stub("(*math/rand.Rand).Intn", func(r *rand.Rand, n int) int { return verif_choose("rand_intn", n) })
		verif_stub("(*math/rand.Rand).Shuffle", func(r *rand.Rand, n int, swap func(i, j int)) {
			for i := n - 1; i > 0; i-- {
				swap(i, verif_choose("shuffle", i+1))
			}
		})
		verif_stub("(*github.com/rs/dnscache.Resolver).LookupHost", func(r *dnscache.Resolver, ctx context.Context, host string) ([]string, error) {
			return cache, nil
		})
		verif_stub("(*net.Dialer).DialContext", func(d *net.Dialer, ctx context.Context, network, addr string) (net.Conn, error) {
			cur = append(cur, addr)
			if verif_nondet_bool("dial_fails") {
				return nil, errors.New("model: connection refused")
			}
			return nil, nil
		})
	} else {
		return // the resolver and dialer cannot be replaced natively; see firstOfEachIPFamily replay
	}

	a := &Attacker{dialer: &net.Dialer{}, stopch: make(chan struct{})}
	tr := &http.Transport{}
	a.client.Transport = tr
	DNSCaching(0)(a)

	// "picked at random": every resolved address must be diallable on the
	// first attempt of some call (an existential goal, one per address)
	if !refresh {
		for _, r := range resolved {
			verif_expect_cover(cfg + "dialled:" + r)
		}
	}
	for d := 0; d < dials; d++ {
		if refresh && d == 1 {
			// the new record set: as many addresses, none of the old ones
			fresh := map[string]string{"10.0.0.1": "10.0.9.1", "10.0.0.2": "10.0.9.2", "fd00::1": "fd09::1", "fd00::2": "fd09::2"}
			next := make([]string, len(resolved))
			for i, r := range resolved {
				next[i] = fresh[r]
			}
			resolved = next
			cache = append([]string(nil), next...)
		}
		cur = nil
		_, _ = tr.DialContext(context.Background(), "tcp", "svc.example:80")
		dialled = append(dialled, cur)
		for _, addr := range cur {
			if host, _, err := net.SplitHostPort(addr); err == nil {
				verif_cover(cfg + "dialled:" + host)
			}
		}

		// the cache entry is still a permutation of what was resolved
		for _, want := range resolved {
			cnt, orig := 0, 0
			for _, c := range cache {
				if c == want {
					cnt++
				}
			}
			for _, c := range resolved {
				if c == want {
					orig++
				}
			}
			verif_assert(cnt == orig, "C18.dns.cache-entry-not-shrunk-or-altered")
		}
		nv4, nv6 := 0, 0
		for _, addr := range cur {
			host, port, err := net.SplitHostPort(addr)
			verif_assert(err == nil && port == "80", "C18.dns.port-kept")
			member := false
			for _, r := range resolved {
				if r == host {
					member = true
				}
			}
			verif_assert(member, "C18.dns.dials-a-resolved-address")
			if _, v4 := verifIsV4(host); v4 {
				nv4++
			} else {
				nv6++
			}
		}
		verif_assert(len(cur) >= 1 && nv4 <= 1 && nv6 <= 1, "C18.dns.one-address-per-family")
	}
}

// C18 (3) — ConnectTo: dials to a mapped address rotate evenly over its
// replacements, each mapped key has its own rotation, unmapped addresses pass
// through unchanged.
//
//verif:harness param.k=1..3 unwind=64 replay=none
func verif_harness_C18_connect_to() {
	k := verif_param("k")
	repl := []string{"r1:1", "r2:2", "r3:3"}[:k]
	other := []string{"o1:1", "o2:2"}
	var seen []string
	if verif_is_symbolic_run() {
		verif_stub("(*net.Dialer).DialContext", func(d *net.Dialer, ctx context.Context, network, addr string) (net.Conn, error) {
			seen = append(seen, addr)
			return nil, nil
		})
	} else {
		return
	}
	a := &Attacker{dialer: &net.Dialer{}}
	tr := &http.Transport{}
	a.client.Transport = tr
	ConnectTo(map[string][]string{"svc:80": repl, "other:80": other})(a)

	count := map[string]int{}
	for i := 0; i < k+3; i++ {
		// interleave: which address is dialled next is arbitrary
		switch verif_choose("which", 3) {
		case 0:
			seen = nil
			tr.DialContext(context.Background(), "tcp", "svc:80")
			verif_assert(len(seen) == 1, "C18.connect-to.one-dial")
			count[seen[0]]++
			// even rotation: no replacement is ever more than one use ahead of another
			lo, hi := 1<<30, 0
			for _, r := range repl {
				if count[r] < lo {
					lo = count[r]
				}
				if count[r] > hi {
					hi = count[r]
				}
			}
			verif_assert(hi-lo <= 1, "C18.connect-to.even-rotation")
			used := false
			for _, r := range repl {
				if r == seen[0] {
					used = true
				}
			}
			verif_assert(used, "C18.connect-to.mapped-to-a-replacement")
		case 1:
			seen = nil
			tr.DialContext(context.Background(), "tcp", "other:80")
			verif_assert(len(seen) == 1 && (seen[0] == other[0] || seen[0] == other[1]), "C18.connect-to.other-key-own-replacements")
		case 2:
			seen = nil
			tr.DialContext(context.Background(), "tcp", "plain:443")
			verif_assert(len(seen) == 1 && seen[0] == "plain:443", "C18.connect-to.unmapped-passes-through")
		}
	}
}
