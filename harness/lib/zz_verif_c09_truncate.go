package vegeta

import (
	"bytes"
	"io"
	"time"

	"github.com/mailru/easyjson/jlexer"
)

// C09 (a) — the JSON decoder on a stream cut at an arbitrary point: the
// stream is L symbolic bytes (each a newline or not), delivered in arbitrary
// short reads through the real bufio.Reader. Exactly the newline-terminated
// lines are handed to the record decoder, in order and whole; the torn tail
// (bytes after the last newline) is never decoded and ends in an error.
// The record decoder itself (easyjson) is replaced by a recorder.
//
//verif:harness param.L=0..5 thorough.param.L=0..8 unwind=64 replay=none
func verif_harness_C09_json_truncated() {
	L := verif_param("L")
	stream := verif_nondet_bytes("stream", L)
	for _, c := range stream {
		verif_assume(c == '\n' || c == 'x')
	}
	var handed [][]byte
	if verif_is_symbolic_run() {
		verif_stub("(*github.com/tsenart/vegeta/v12/lib.jsonResult).UnmarshalEasyJSON", func(r *jsonResult, l *jlexer.Lexer) {
			handed = append(handed, append([]byte(nil), l.Data...))
		})
	} else {
		return
	}
	dec := NewJSONDecoder(&verifSrc{data: stream})

	// reference: the complete lines before the cut
	var want [][]byte
	start := 0
	for i, c := range stream {
		if c == '\n' {
			want = append(want, stream[start:i+1])
			start = i + 1
		}
	}
	for n := 0; n <= L+1; n++ {
		var r Result
		err := dec.Decode(&r)
		if err != nil {
			break
		}
	}
	verif_assert(len(handed) == len(want), "C09.json.only-complete-lines-are-decoded")
	for i := 0; i < len(handed) && i < len(want); i++ {
		verif_assert(bytes.Equal(handed[i], want[i]), "C09.json.each-record-whole-and-in-order")
	}
	var r Result
	verif_assert(dec.Decode(&r) != nil, "C09.json.torn-tail-ends-in-error")
	verif_assert(len(handed) == len(want), "C09.json.torn-tail-never-decoded")
}

// verifRecWriter records every Write call.
type verifRecWriter struct {
	writes [][]byte
}

func (w *verifRecWriter) Write(p []byte) (int, error) {
	w.writes = append(w.writes, append([]byte(nil), p...))
	return len(p), nil
}

func (w *verifRecWriter) all() []byte {
	var b []byte
	for _, x := range w.writes {
		b = append(b, x...)
	}
	return b
}

// C09 (b) — every Encode call of the CSV and JSON encoders hands the whole
// record to the writer before it returns (nothing stays buffered), so every
// point between two calls is a record boundary: after each call the bytes
// written so far decode to exactly the results encoded so far.
//
//verif:harness unwind=64
func verif_harness_C09_encoders_flush_per_record() {
	results := []Result{
		{Attack: "a", Seq: 0, Code: 200, Timestamp: time.Unix(0, 1700000000123456789), Latency: 1500, BytesOut: 3, BytesIn: 5, Body: []byte("hello"), Method: "GET", URL: "http://x/"},
		{Attack: "a", Seq: 1, Code: 0, Timestamp: time.Unix(0, 1700000000223456789), Latency: 7, Error: "dial \"tcp\": refused,\nreally", Method: "POST", URL: "http://y/"},
		{Attack: "a", Seq: 2, Code: 301, Timestamp: time.Unix(0, 1700000000323456789), Latency: 9, Body: bytes.Repeat([]byte("z"), 5000), Method: "GET", URL: "http://z/"},
	}
	n := 1 + verif_choose("records", len(results))
	csvFormat := verif_choose("format", 2) == 0
	w := &verifRecWriter{}
	var enc Encoder
	if csvFormat {
		enc = NewCSVEncoder(w)
	} else {
		enc = NewJSONEncoder(w)
	}
	for k := 0; k < n; k++ {
		before := len(w.writes)
		verif_assert(enc.Encode(&results[k]) == nil, "C09.enc.no-error")
		verif_assert(len(w.writes) > before, "C09.enc.record-written-before-encode-returns")
		data := w.all()
		verif_assert(len(data) > 0 && data[len(data)-1] == '\n', "C09.enc.output-ends-at-a-record-boundary")
		// the prefix written so far decodes to exactly the k+1 results
		var dec Decoder
		if csvFormat {
			dec = NewCSVDecoder(bytes.NewReader(data))
		} else {
			dec = NewJSONDecoder(bytes.NewReader(data))
		}
		for j := 0; j <= k; j++ {
			var r Result
			err := dec.Decode(&r)
			verif_assert(err == nil && r.Seq == results[j].Seq && r.Error == results[j].Error && bytes.Equal(r.Body, results[j].Body), "C09.enc.prefix-decodes-to-the-encoded-records")
		}
		var r Result
		verif_assert(dec.Decode(&r) == io.EOF, "C09.enc.nothing-else-in-the-prefix")
	}
}
