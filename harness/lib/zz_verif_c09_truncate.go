package vegeta

import (
	"bytes"
	"io"
	"time"

	"github.com/mailru/easyjson/jlexer"
)

// C09 (a) — the JSON decoder on a stream cut at an arbitrary point: the
// stream is L symbolic bytes (each a newline or not), delivered in arbitrary
// short reads through the real bufio.Reader. Exactly the newline-terminated
// lines are handed to the record decoder, in order and whole; the torn tail
// (bytes after the last newline) is never decoded and ends in an error.
// The record decoder itself (easyjson) is replaced by a recorder.
//
//verif:harness param.L=0..5 thorough.param.L=0..8 unwind=64 replay=none
func verif_harness_C09_json_truncated() {
	L := verif_param("L")
	stream := verif_nondet_bytes("stream", L)
	for _, c := range stream {
		verif_assume(c == '\n' || c == 'x')
	}
	var handed [][]byte
	if verif_is_symbolic_run() {
		verif_stub("(*github.com/tsenart/vegeta/v12/lib.jsonResult).UnmarshalEasyJSON", func(r *jsonResult, l *jlexer.Lexer) {
			handed = append(handed, append([]byte(nil), l.Data...))
		})
	} else {
		return
	}
	dec := NewJSONDecoder(&verifSrc{data: stream})

	// reference: the complete lines before the cut
	var want [][]byte
	start := 0
	for i, c := range stream {
		if c == '\n' {
			want = append(want, stream[start:i+1])
			start = i + 1
		}
	}
	for n := 0; n <= L+1; n++ {
		var r Result
		err := dec.Decode(&r)
		if err != nil {
			break
		}
	}
	verif_assert(len(handed) == len(want), "C09.json.only-complete-lines-are-decoded")
	for i := 0; i < len(handed) && i < len(want); i++ {
		verif_assert(bytes.Equal(handed[i], want[i]), "C09.json.each-record-whole-and-in-order")
	}
	var r Result
	verif_assert(dec.Decode(&r) != nil, "C09.json.torn-tail-ends-in-error")
	verif_assert(len(handed) == len(want), "C09.json.torn-tail-never-decoded")
}

// C09 (a2) — the same with records far larger than the reader's buffer: two
// lines of 70 000 and 5 bytes followed by a torn tail, delivered in reads of at
// most 32 KiB. Both complete lines reach the record decoder whole; the tail
// does not.
//
//verif:harness unwind=64 replay=none
func verif_harness_C09_json_large_line() { verifJSONLargeLine() }

// The same harness registered for C08: a JSON record larger than any read
// buffer reaches the record decoder unaltered (nothing lost, nothing
// overwritten), and so does the record after it.
//
//verif:harness unwind=64 replay=none
func verif_harness_C08_json_large_record_unaltered() { verifJSONLargeLine() }

func verifJSONLargeLine() {
	if !verif_is_symbolic_run() {
		return
	}
	const N = 70000
	stream := make([]byte, 0, N+16)
	for i := 0; i < N-1; i++ {
		stream = append(stream, byte('a'+i%26))
	}
	stream = append(stream, '\n')
	stream = append(stream, "bcde\n"...)
	tail := verif_choose("torn_tail_bytes", 3)
	stream = append(stream, "xy"[:tail]...)
	var handed [][]byte
	verif_stub("(*github.com/tsenart/vegeta/v12/lib.jsonResult).UnmarshalEasyJSON", func(r *jsonResult, l *jlexer.Lexer) {
		handed = append(handed, append([]byte(nil), l.Data...))
	})
	dec := NewJSONDecoder(&verifBigSrc{data: stream})
	var r Result
	verif_assert(dec.Decode(&r) == nil && dec.Decode(&r) == nil, "C09.json.complete-large-record-decodes")
	verif_assert(dec.Decode(&r) != nil, "C09.json.torn-tail-ends-in-error")
	verif_assert(len(handed) == 2, "C09.json.only-complete-lines-are-decoded")
	if len(handed) == 2 {
		verif_assert(len(handed[0]) == N && verifSamePrefix(handed[0], stream) && bytes.Equal(handed[1], []byte("bcde\n")),
			"C09.json.each-record-whole-and-in-order")
	}
}

// verifRecWriter records every Write call.
type verifRecWriter struct {
	writes [][]byte
}

func (w *verifRecWriter) Write(p []byte) (int, error) {
	w.writes = append(w.writes, append([]byte(nil), p...))
	return len(p), nil
}

func (w *verifRecWriter) all() []byte {
	var b []byte
	for _, x := range w.writes {
		b = append(b, x...)
	}
	return b
}

// C09 (b) — every Encode call of the CSV and JSON encoders hands the whole
// record to the writer before it returns (nothing stays buffered), so every
// point between two calls is a record boundary: after each call the bytes
// written so far decode to exactly the results encoded so far.
//
//verif:harness unwind=64
func verif_harness_C09_encoders_flush_per_record() {
	results := []Result{
		{Attack: "a", Seq: 0, Code: 200, Timestamp: time.Unix(0, 1700000000123456789), Latency: 1500, BytesOut: 3, BytesIn: 5, Body: []byte("hello"), Method: "GET", URL: "http://x/"},
		{Attack: "a", Seq: 1, Code: 0, Timestamp: time.Unix(0, 1700000000223456789), Latency: 7, Error: "dial \"tcp\": refused,\nreally", Method: "POST", URL: "http://y/"},
		{Attack: "a", Seq: 2, Code: 301, Timestamp: time.Unix(0, 1700000000323456789), Latency: 9, Body: bytes.Repeat([]byte("z"), 5000), Method: "GET", URL: "http://z/"},
	}
	n := 1 + verif_choose("records", len(results))
	csvFormat := verif_choose("format", 2) == 0
	w := &verifRecWriter{}
	var enc Encoder
	if csvFormat {
		enc = NewCSVEncoder(w)
	} else {
		enc = NewJSONEncoder(w)
	}
	for k := 0; k < n; k++ {
		before := len(w.writes)
		verif_assert(enc.Encode(&results[k]) == nil, "C09.enc.no-error")
		verif_assert(len(w.writes) > before, "C09.enc.record-written-before-encode-returns")
		data := w.all()
		verif_assert(len(data) > 0 && data[len(data)-1] == '\n', "C09.enc.output-ends-at-a-record-boundary")
		// the prefix written so far decodes to exactly the k+1 results
		var dec Decoder
		if csvFormat {
			dec = NewCSVDecoder(bytes.NewReader(data))
		} else {
			dec = NewJSONDecoder(bytes.NewReader(data))
		}
		for j := 0; j <= k; j++ {
			var r Result
			err := dec.Decode(&r)
			verif_assert(err == nil && r.Seq == results[j].Seq && r.Error == results[j].Error && bytes.Equal(r.Body, results[j].Body), "C09.enc.prefix-decodes-to-the-encoded-records")
		}
		var r Result
		verif_assert(dec.Decode(&r) == io.EOF, "C09.enc.nothing-else-in-the-prefix")
	}
}

// verifFailingWriter accepts limit bytes in total, then fails (a short write
// with an error, as a full disk gives).
type verifFailingWriter struct {
	data  []byte
	limit int
}

var errVerifDisk = io.ErrShortWrite

func (w *verifFailingWriter) Write(p []byte) (int, error) {
	room := w.limit - len(w.data)
	if room >= len(p) {
		w.data = append(w.data, p...)
		return len(p), nil
	}
	if room < 0 {
		room = 0
	}
	w.data = append(w.data, p[:room]...)
	return room, errVerifDisk
}

// C09 (b2) — the writer fails after an arbitrary number of bytes (a choice
// among: nothing, one byte, inside the first record, exactly the end of the
// first record, inside the second): an Encode call that reports success has
// handed its whole record to the writer — the output then holds exactly as many
// whole records as calls succeeded — and a call whose record did not fit
// reports an error.
//
//verif:harness unwind=64
func verif_harness_C09_encoder_write_fault() {
	results := []Result{
		{Attack: "a", Seq: 0, Code: 200, Timestamp: time.Unix(0, 1700000000123456789), Latency: 1500, BytesOut: 3, BytesIn: 5, Body: []byte("hello"), Method: "GET", URL: "http://x/"},
		{Attack: "a", Seq: 1, Code: 0, Timestamp: time.Unix(0, 1700000000223456789), Latency: 7, Error: "refused", Method: "POST", URL: "http://y/"},
	}
	csvFormat := verif_choose("format", 2) == 0
	// size of each record on an unlimited writer
	sizes := make([]int, len(results))
	{
		w := &verifRecWriter{}
		var enc Encoder
		if csvFormat {
			enc = NewCSVEncoder(w)
		} else {
			enc = NewJSONEncoder(w)
		}
		for k := range results {
			before := len(w.all())
			enc.Encode(&results[k])
			sizes[k] = len(w.all()) - before
		}
	}
	limit := []int{0, 1, sizes[0] / 2, sizes[0] - 1, sizes[0], sizes[0] + 1, sizes[0] + sizes[1] - 1}[verif_choose("writer_fails_after", 7)]
	w := &verifFailingWriter{limit: limit}
	var enc Encoder
	if csvFormat {
		enc = NewCSVEncoder(w)
	} else {
		enc = NewJSONEncoder(w)
	}
	written := 0
	for k := range results {
		err := enc.Encode(&results[k])
		fits := written+sizes[k] <= limit
		if err == nil {
			verif_assert(fits, "C09.enc.success-means-the-whole-record-was-written")
			written += sizes[k]
			verif_assert(len(w.data) == written, "C09.enc.output-holds-exactly-the-successful-records")
		} else {
			verif_assert(!fits, "C09.enc.no-error-when-the-record-fits")
			break
		}
	}
}

// C09 (b3) — one of the results cannot be marshalled (a timestamp in a year
// past 9999 makes time.Time.MarshalJSON fail; for CSV every result encodes):
// whatever Encode reports for that result and for the ones after it, the bytes
// handed to the writer are at every point between calls exactly the records of
// the calls that reported success, whole and in order — a failed call leaves
// nothing behind that a later successful call would emit in front of its own
// record.
//
//verif:harness unwind=64
func verif_harness_C09_encoder_marshal_fault() {
	results := []Result{
		{Attack: "a", Seq: 0, Code: 200, Timestamp: time.Unix(0, 1700000000123456789), Latency: 1500, BytesOut: 3, BytesIn: 5, Body: []byte("hello"), Method: "GET", URL: "http://x/"},
		{Attack: "a", Seq: 1, Code: 0, Timestamp: time.Unix(0, 1700000000223456789), Latency: 7, Error: "refused", Method: "POST", URL: "http://y/"},
		{Attack: "a", Seq: 2, Code: 204, Timestamp: time.Unix(0, 1700000000323456789), Latency: 9, Method: "GET", URL: "http://z/"},
	}
	bad := verif_choose("unencodable_result", len(results)+1)
	if bad < len(results) {
		results[bad].Timestamp = time.Date(10000, 1, 1, 0, 0, 0, 0, time.UTC)
	}
	csvFormat := verif_choose("format", 2) == 0
	w := &verifRecWriter{}
	var enc Encoder
	if csvFormat {
		enc = NewCSVEncoder(w)
	} else {
		enc = NewJSONEncoder(w)
	}
	var ok []int
	for k := range results {
		if enc.Encode(&results[k]) == nil {
			ok = append(ok, k)
		}
		if !csvFormat && k == bad {
			verif_assert(len(ok) == 0 || ok[len(ok)-1] != k, "C09.enc.unencodable-result-is-reported")
		}
		if k != bad && (bad > k || csvFormat) {
			verif_assert(len(ok) > 0 && ok[len(ok)-1] == k, "C09.enc.no-error")
		}
		data := w.all()
		verif_assert(len(data) == 0 || data[len(data)-1] == '\n', "C09.enc.output-ends-at-a-record-boundary")
		var dec Decoder
		if csvFormat {
			dec = NewCSVDecoder(bytes.NewReader(data))
		} else {
			dec = NewJSONDecoder(bytes.NewReader(data))
		}
		for _, j := range ok {
			var r Result
			err := dec.Decode(&r)
			verif_assert(err == nil && r.Seq == results[j].Seq && r.Error == results[j].Error && bytes.Equal(r.Body, results[j].Body) && r.URL == results[j].URL,
				"C09.enc.output-is-exactly-the-successful-records")
		}
		var r Result
		verif_assert(dec.Decode(&r) == io.EOF, "C09.enc.nothing-but-the-successful-records")
	}
}

// C09 (b4) — records already returned stay what they were: a stream of three
// records (JSON or CSV) followed by a torn tail is decoded to its end; after
// the decoder has read the later lines and the tail, every returned record
// still equals the one written — no string or body of an earlier record shares
// storage with the decoder's line buffer.
//
//verif:harness unwind=64
func verif_harness_C09_returned_records_stay_intact() {
	results := []Result{
		{Attack: "a", Seq: 0, Code: 200, Timestamp: time.Unix(0, 1700000000123456789), Latency: 1500, BytesOut: 3, BytesIn: 5, Body: []byte("hello"), Method: "GET", URL: "http://x/"},
		{Attack: "b", Seq: 1, Code: 0, Timestamp: time.Unix(0, 1700000000223456789), Latency: 7, Error: "refused", Method: "PUT", URL: "http://y/"},
		{Attack: "c", Seq: 2, Code: 204, Timestamp: time.Unix(0, 1700000000323456789), Latency: 9, Body: []byte("olleh"), Method: "POS", URL: "http://z/"},
	}
	csvFormat := verif_choose("format", 2) == 0
	w := &verifRecWriter{}
	var enc Encoder
	if csvFormat {
		enc = NewCSVEncoder(w)
	} else {
		enc = NewJSONEncoder(w)
	}
	for k := range results {
		verif_assert(enc.Encode(&results[k]) == nil, "C09.enc.no-error")
	}
	data := w.all()
	if !csvFormat {
		// a torn tail: the start of a fourth record
		data = append(data, data[:1+verif_choose("torn_tail_bytes", 40)]...)
	}
	var dec Decoder
	if csvFormat {
		dec = NewCSVDecoder(bytes.NewReader(data))
	} else {
		dec = NewJSONDecoder(bytes.NewReader(data))
	}
	var got []Result
	for {
		var r Result
		if dec.Decode(&r) != nil {
			break
		}
		got = append(got, r)
	}
	verif_assert(len(got) == len(results), "C09.intact.exactly-the-complete-records")
	for k := 0; k < len(got) && k < len(results); k++ {
		a, b := got[k], results[k]
		verif_assert(a.Attack == b.Attack && a.Seq == b.Seq && a.Code == b.Code && a.Method == b.Method && a.URL == b.URL && a.Error == b.Error && bytes.Equal(a.Body, b.Body),
			"C09.intact.earlier-records-unchanged-by-later-reads")
	}
}
