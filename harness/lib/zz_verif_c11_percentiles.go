package vegeta

import (
	"io"
	"time"

	"github.com/influxdata/tdigest"
)

// verifC11Estimator replaces the t-digest of github.com/influxdata/tdigest at
// its API boundary (NewWithCompression, Add, Quantile) by its *contract*: every
// quantile lies between the smallest and the largest sample added, and the
// quantile function is monotone (checked against the previous query, which is
// all a caller asking in increasing order can observe). The rank error of the
// real estimator is outside the claim (DESIGN.md §5 C11).
type verifC11Estimator struct {
	compression []float64
	samples     []float64
	weights     []float64
	asked       []float64
	answers     []float64
	expect      *int64 // the latency being added, when the harness tracks it
}

func verifC11Stubs() *verifC11Estimator {
	e := &verifC11Estimator{}
	verif_stub("github.com/influxdata/tdigest.NewWithCompression", func(c float64) *tdigest.TDigest {
		e.compression = append(e.compression, c)
		return &tdigest.TDigest{}
	})
	verif_stub("(*github.com/influxdata/tdigest.TDigest).Add", func(t *tdigest.TDigest, x, w float64) {
		if e.expect != nil {
			verif_assert(x == float64(*e.expect) && w == 1, "C11.sample-is-the-latency-with-weight-one")
		}
		e.samples = append(e.samples, x)
		e.weights = append(e.weights, w)
	})
	verif_stub("(*github.com/influxdata/tdigest.TDigest).Quantile", func(t *tdigest.TDigest, q float64) float64 {
		v := verif_nondet_f64("quantile")
		verif_assume(len(e.samples) > 0)
		lo, hi := e.samples[0], e.samples[0]
		for _, s := range e.samples[1:] {
			lo = verif_ite_f64(s < lo, s, lo)
			hi = verif_ite_f64(s > hi, s, hi)
		}
		verif_assume(v >= lo && v <= hi)
		if n := len(e.asked); n > 0 {
			if q >= e.asked[n-1] {
				verif_assume(v >= e.answers[n-1])
			}
			if q <= e.asked[n-1] {
				verif_assume(v <= e.answers[n-1])
			}
		}
		e.asked = append(e.asked, q)
		e.answers = append(e.answers, v)
		return v
	})
	return e
}

// C11 — what vegeta itself contributes to the percentiles: every latency is
// handed to the estimator exactly once with weight one, the estimator is built
// once with compression >= 100 (the accuracy the 1% rank bound relies on), Close asks for exactly the 0.50/0.90/0.95/0.99
// quantiles and stores them in the fields of those names, and under the
// estimator's contract the reported values are ordered
// min <= p50 <= p90 <= p95 <= p99 <= max (all equal when all latencies are).
// Latencies 0 <= l < 2^53 ns (104 days; exactly representable as doubles).
//
//verif:harness solver=cvc5 timeout=60000 unwind=16 param.n=1..2 thorough.deadline=3000 replay=none
func verif_harness_C11_percentiles() {
	if !verif_is_symbolic_run() {
		return
	}
	n := verif_param("n")
	e := verifC11Stubs()
	var m Metrics
	lat := make([]int64, n)
	// a periodic report closes the metrics between results as well
	closeAfter := verif_choose("intermediate_close_after", n) // 0: none
	for i := range lat {
		lat[i] = verif_nondet_i64("latency")
		verif_assume(lat[i] >= 0 && lat[i] < 1<<53)
		code := uint16(200)
		if verif_nondet_bool("failed") {
			code = 500
		}
		e.expect = &lat[i]
		m.Add(&Result{Code: code, Timestamp: time.Unix(0, 1000), Latency: time.Duration(lat[i])})
		if i+1 == closeAfter {
			m.Close()
		}
	}
	e.expect = nil
	verif_assert(len(e.samples) == n, "C11.every-latency-reaches-the-estimator-once")
	askedBefore := len(e.asked)
	m.Close()

	verif_assert(len(e.compression) == 1 && e.compression[0] >= 100, "C11.estimator-built-once-with-compression-at-least-100")
	verif_assert(len(e.samples) == n, "C11.every-latency-reaches-the-estimator-once")
	// each percentile field holds an answer the estimator gave for that
	// quantile after the last latency was added
	l := m.Latencies
	for _, f := range []struct {
		q float64
		d time.Duration
	}{{0.50, l.P50}, {0.90, l.P90}, {0.95, l.P95}, {0.99, l.P99}} {
		found := false
		for k := askedBefore; k < len(e.asked); k++ {
			if e.asked[k] == f.q && time.Duration(e.answers[k]) == f.d {
				found = true
			}
		}
		verif_assert(found, "C11.field-holds-the-current-quantile-of-its-name")
	}
	verif_assert(l.Min <= l.P50 && l.P50 <= l.P90 && l.P90 <= l.P95 && l.P95 <= l.P99 && l.P99 <= l.Max,
		"C11.min-p50-p90-p95-p99-max-ordered")
	allEqual := true
	for i := 1; i < n; i++ {
		allEqual = verif_and(allEqual, lat[i] == lat[0])
	}
	if allEqual {
		verif_assert(l.P50 == time.Duration(lat[0]) && l.P99 == time.Duration(lat[0]), "C11.equal-latencies-give-that-value")
	}
	// asking again later (reporters do) changes nothing and feeds nothing
	verif_assert(l.Quantile(0.5) >= l.Min && len(e.samples) == n && len(e.compression) == 1, "C11.quantile-query-is-read-only")
}

// C11 — the HDR-histogram report's percentile ladder (a fixed table in
// reporters.go): strictly increasing from 0 to 1, with a never-decreasing
// 1/(1-q) column. Concrete evaluation of the real table and oneByQuantile.
//
//verif:harness unwind=256
func verif_harness_C11_hdr_ladder() {
	verif_assert(len(logarithmic) >= 2, "C11.hdr.ladder-has-steps")
	verif_assert(logarithmic[0] == 0 && logarithmic[len(logarithmic)-1] == 1, "C11.hdr.ladder-spans-0-to-1")
	for k := 1; k < len(logarithmic); k++ {
		verif_assert(logarithmic[k] > logarithmic[k-1], "C11.hdr.ladder-strictly-increasing")
		verif_assert(oneByQuantile(logarithmic[k]) >= oneByQuantile(logarithmic[k-1]), "C11.hdr.inverse-never-decreases")
	}
}

// C11 — the HDR-histogram report's loop, which treats every ladder step alike:
// run here over an arbitrary increasing three-step ladder of symbolic
// percentiles in [0, 1] (the real table is the subject of the harness above):
// one row per step, the printed percentile is the one the value was asked
// for, values never decrease (under the estimator's contract; milliseconds()
// replaced by the exact nanosecond count, its own monotonicity is outside the
// claim), counts never decrease, lie in 0..requests and reach the number of
// requests at percentile 1.
//
//verif:harness solver=cvc5 timeout=60000 unwind=64 replay=none
func verif_harness_C11_hdr_rows() {
	if !verif_is_symbolic_run() {
		return
	}
	e := verifC11Stubs()
	var m Metrics
	for i := 0; i < 2; i++ {
		l := verif_nondet_i64("latency")
		verif_assume(l >= 0 && l < 1<<53)
		m.Add(&Result{Code: 200, Timestamp: time.Unix(0, 1000), Latency: time.Duration(l)})
	}
	m.Close()
	asked0 := len(e.asked)
	ladder := make([]float64, 3)
	for k := range ladder {
		ladder[k] = verif_nondet_f64("q")
		verif_assume(ladder[k] >= 0 && ladder[k] <= 1)
		if k > 0 {
			verif_assume(ladder[k] > ladder[k-1])
		}
	}
	if verif_nondet_bool("ends_at_one") {
		verif_assume(ladder[2] == 1)
	}
	logarithmic = ladder
	type row struct {
		value, q, oneBy float64
		count           int64
	}
	var rows []row
	headers := 0
	verif_stub("fmt.Fprintf", func(w io.Writer, format string, a ...interface{}) (int, error) {
		if len(a) == 4 {
			rows = append(rows, row{value: a[0].(float64), q: a[1].(float64), count: a[2].(int64), oneBy: a[3].(float64)})
		} else {
			headers++
		}
		return len(format), nil
	})
	verif_stub("github.com/tsenart/vegeta/v12/lib.milliseconds", func(d time.Duration) float64 { return float64(d) })
	err := NewHDRHistogramPlotReporter(&m).Report(io.Discard)
	verif_unstub("fmt.Fprintf")
	verif_assert(err == nil && headers == 1, "C11.hdr.one-header")
	verif_assert(len(rows) == len(ladder), "C11.hdr.one-row-per-ladder-step")
	verif_assert(len(e.asked)-asked0 == len(rows), "C11.hdr.one-quantile-query-per-row")
	if len(rows) != len(ladder) || len(e.asked)-asked0 != len(rows) {
		return
	}
	for k := range rows {
		r := rows[k]
		verif_assert(r.q == ladder[k] && r.q == e.asked[asked0+k], "C11.hdr.row-shows-the-percentile-it-asked-for")
		verif_assert(verif_same_f64(r.value, float64(time.Duration(e.answers[asked0+k]))), "C11.hdr.row-shows-the-estimator's-answer")
		verif_assert(r.count >= 0 && r.count <= int64(m.Requests), "C11.hdr.count-within-requests")
		if k > 0 {
			verif_assert(r.value >= rows[k-1].value, "C11.hdr.values-never-decrease")
			verif_assert(r.count >= rows[k-1].count, "C11.hdr.counts-never-decrease")
		}
		if r.q == 1 {
			verif_assert(r.count == int64(m.Requests), "C11.hdr.count-at-100-percent-is-requests")
		}
	}
}
