package vegeta

import (
	"errors"
	"io"
)

// C13 — NewRoundRobinDecoder over D inputs of arbitrary (symbolic) lengths:
// the combined stream contains every record of every input exactly once,
// keeps each input's own order, and ends (io.EOF) exactly when all inputs are
// exhausted; it keeps reporting the end afterwards.
//
//verif:harness param.D=1..3 thorough.param.D=1..5 unwind=64
func verif_harness_C13_roundrobin() {
	D := verif_param("D")
	Lmax := 2
	if verif_thorough() {
		Lmax = 3
	}
	lens := make([]int, D)
	pos := make([]int, D)
	decs := make([]Decoder, D)
	total := 0
	for i := 0; i < D; i++ {
		i := i
		lens[i] = verif_choose("len", Lmax+1)
		total += lens[i]
		decs[i] = func(r *Result) error {
			if pos[i] < lens[i] {
				r.Seq = uint64(i*1000 + pos[i])
				r.Attack = "x"
				pos[i]++
				return nil
			}
			return io.EOF
		}
	}
	rr := NewRoundRobinDecoder(decs...)
	next := make([]int, D) // next expected index per input
	got := 0
	for n := 0; n <= D*Lmax; n++ {
		var r Result
		err := rr.Decode(&r)
		if err != nil {
			verif_assert(errors.Is(err, io.EOF), "C13.rr.end-is-EOF")
			break
		}
		src, k := int(r.Seq/1000), int(r.Seq%1000)
		verif_assert(src >= 0 && src < D, "C13.rr.record-from-an-input")
		if src < 0 || src >= D {
			return
		}
		verif_assert(k == next[src], "C13.rr.per-input-order-no-dup-no-gap")
		next[src]++
		got++
	}
	verif_assert(got == total, "C13.rr.ends-exactly-when-all-exhausted")
	for i := 0; i < D; i++ {
		verif_assert(next[i] == lens[i], "C13.rr.every-record-delivered")
	}
	var r Result
	verif_assert(rr.Decode(&r) == io.EOF, "C13.rr.stays-at-end")
}

// C13 — a decoder that fails with an error other than end-of-stream is
// skipped for that call only; the error surfaces once every input failed.
//
//verif:harness unwind=32
func verif_harness_C13_roundrobin_errors() {
	boom := errors.New("boom")
	failing := verif_choose("failing", 3) // which of the three inputs reports a decode error
	left := []int{1, 1, 1}
	decs := make([]Decoder, 3)
	for i := range decs {
		i := i
		decs[i] = func(r *Result) error {
			if i == failing {
				return boom
			}
			if left[i] > 0 {
				left[i]--
				r.Seq = uint64(i)
				return nil
			}
			return io.EOF
		}
	}
	rr := NewRoundRobinDecoder(decs...)
	seen := 0
	var last error
	for n := 0; n < 4; n++ {
		var r Result
		if last = rr.Decode(&r); last != nil {
			break
		}
		verif_assert(int(r.Seq) != failing, "C13.rr.no-record-from-failing-input")
		seen++
	}
	verif_assert(seen == 2, "C13.rr.healthy-inputs-fully-delivered")
	verif_assert(last != nil, "C13.rr.error-after-all-failed")
}

// C13 — one call from an arbitrary state (any number of earlier calls): the
// rotation counter private to the closure is set to an arbitrary 64-bit value
// (including the values just before any narrower counter would wrap around),
// each of the D inputs either has a record left or is exhausted. The call
// returns a record iff some input has one — taken
// from an input that has one — and reports the end only when all are exhausted.
//
//verif:harness mode=int param.D=2..3 thorough.param.D=2..6 unwind=64 replay=none timeout=30000
func verif_harness_C13_roundrobin_step() {
	if !verif_is_symbolic_run() {
		return
	}
	D := verif_param("D")
	has := make([]bool, D)
	tried := make([]int, D)
	decs := make([]Decoder, D)
	any := false
	for i := 0; i < D; i++ {
		i := i
		has[i] = verif_nondet_bool("has_record")
		any = verif_or(any, has[i])
		decs[i] = func(r *Result) error {
			tried[i]++
			if has[i] {
				r.Seq = uint64(i)
				r.Attack = "x"
				return nil
			}
			return io.EOF
		}
	}
	rr := NewRoundRobinDecoder(decs...)
	// fewer than 2^63 earlier calls (three centuries at one call per
	// nanosecond): the 64-bit counter itself never wraps in a real history
	calls := verif_nondet_u64("rotation_counter")
	verif_assume(calls < 1<<63)
	verif_closure_set_int(rr, "seq", calls)
	var r Result
	err := rr.Decode(&r)
	if any {
		verif_assert(err == nil, "C13.rr.step.no-end-while-an-input-has-records")
		if err == nil {
			verif_assert(r.Attack == "x" && int(r.Seq) < D && has[int(r.Seq)], "C13.rr.step.record-from-an-input-that-has-one")
		}
	} else {
		verif_assert(err == io.EOF, "C13.rr.step.end-when-all-exhausted")
	}
}
