package plot

import (
	"time"

	tsz "github.com/tsenart/go-tsz"
	vegeta "github.com/tsenart/vegeta/v12/lib"
)

type verifPush struct {
	t uint64
	v float64
}

// C17 (LS) — labeledSeries.add for n results of one attack arriving in an
// arbitrary order (every permutation of the sequence numbers 0..n-1), with an
// arbitrary OK/ERROR mix and symbolic timestamps that do not decrease with the
// sequence number: afterwards each label's series holds exactly its results,
// once each, in sequence order, at x = (t - t_first)/10^6 ms and
// y = latency in ms; nothing stays buffered and no error is reported.
// The compressed series (go-tsz) is replaced by a recorder.
//
//verif:harness mode=int solver=z3 param.n=1..3 thorough.param.n=1..4 unwind=32 timeout=30000
func verif_harness_C17_labeled_series() {
	n := verif_param("n")
	pushes := map[*tsz.Series][]verifPush{}
	if verif_is_symbolic_run() {
		verif_stub("github.com/tsenart/go-tsz.New", func(t0 uint64) *tsz.Series { return &tsz.Series{} })
		verif_stub("(*github.com/tsenart/go-tsz.Series).Push", func(s *tsz.Series, t uint64, v float64) {
			pushes[s] = append(pushes[s], verifPush{t, v})
		})
		verif_stub("(time.Duration).Seconds", func(d time.Duration) float64 { return verif_uf_f64("seconds", int64(d)) })
	}

	// results indexed by sequence number
	rs := make([]*vegeta.Result, n)
	for s := range rs {
		rs[s] = &vegeta.Result{Attack: "a", Seq: uint64(s), Timestamp: verif_nondet_time("ts"), Latency: time.Duration(verif_nondet_i64("latency"))}
		if verif_nondet_bool("failed") {
			rs[s].Error = "boom"
		}
		if s > 0 {
			verif_assume(!rs[s].Timestamp.Before(rs[s-1].Timestamp))
		}
	}
	// arrival order: an arbitrary permutation
	left := make([]int, n)
	for i := range left {
		left[i] = i
	}
	ls := newLabeledSeries(ErrorLabeler)
	for len(left) > 0 {
		k := verif_choose("arrival", len(left))
		s := left[k]
		left = append(left[:k:k], left[k+1:]...)
		err := ls.add(rs[s])
		verif_assert(err == nil, "C17.ls.no-error")
	}

	verif_assert(len(ls.buf) == 0, "C17.ls.nothing-left-buffered")
	verif_assert(ls.seq == uint64(n), "C17.ls.all-released")
	if !verif_is_symbolic_run() {
		verifNativeSeries(ls, rs)
		return
	}
	for _, label := range []string{"OK", "ERROR"} {
		var want []verifPush
		for s := 0; s < n; s++ {
			if ErrorLabeler(rs[s]) == label {
				want = append(want, verifPush{
					t: uint64(rs[s].Timestamp.Sub(rs[0].Timestamp)) / 1e6,
					v: rs[s].Latency.Seconds() * 1000,
				})
			}
		}
		ts, ok := ls.series[label]
		if len(want) == 0 {
			verif_assert(!ok || ts.len == 0, "C17.ls.no-series-without-results")
			continue
		}
		verif_assert(ok, "C17.ls.series-exists")
		if !ok {
			continue
		}
		got := pushes[ts.data]
		verif_assert(len(got) == len(want) && ts.len == len(want), "C17.ls.one-point-per-result")
		for i := 0; i < len(got) && i < len(want); i++ {
			verif_assert(got[i].t == want[i].t, "C17.ls.x-is-ms-since-first-request")
			verif_assert(verif_same_f64(got[i].v, want[i].v), "C17.ls.y-is-latency-in-ms")
		}
	}
}

// verifNativeSeries is the native twin of the recorder: it reads the real
// compressed series back through the package's own iterator.
func verifNativeSeries(ls *labeledSeries, rs []*vegeta.Result) {
	for _, label := range []string{"OK", "ERROR"} {
		var want []verifPush
		for _, r := range rs {
			if ErrorLabeler(r) == label {
				want = append(want, verifPush{uint64(r.Timestamp.Sub(rs[0].Timestamp)) / 1e6, r.Latency.Seconds() * 1000})
			}
		}
		ts, ok := ls.series[label]
		if len(want) == 0 {
			continue
		}
		verif_assert(ok, "C17.ls.series-exists")
		if !ok {
			continue
		}
		verif_assert(ts.len == len(want), "C17.ls.one-point-per-result")
		ts.data.Finish()
		it := ts.data.Iter()
		for i := 0; it.Next(); i++ {
			t, v := it.Values()
			if i < len(want) {
				verif_assert(t == want[i].t, "C17.ls.x-is-ms-since-first-request")
				verif_assert(verif_same_f64(v, want[i].v), "C17.ls.y-is-latency-in-ms")
			}
		}
	}
}

// C17 (LS2) — a large backlog: results 2..B+1 arrive first and are buffered,
// then result 0 (which releases only itself, result 1 is still missing), then
// — after a choice of 0..2 further late arrivals — result 1, which releases
// everything. Every result ends up in its series exactly once and in sequence
// order, nothing stays buffered. B = 300 / 1500 buffered results (concrete
// values: the size of the backlog is what matters here).
//
//verif:harness unwind=64 replay=none
func verif_harness_C17_labeled_series_backlog() {
	if !verif_is_symbolic_run() {
		return
	}
	B := 300
	if verif_thorough() {
		B = 1500
	}
	var pushed []uint64
	verif_stub("github.com/tsenart/go-tsz.New", func(t0 uint64) *tsz.Series { return &tsz.Series{} })
	verif_stub("(*github.com/tsenart/go-tsz.Series).Push", func(s *tsz.Series, t uint64, v float64) {
		pushed = append(pushed, t)
	})
	base := time.Unix(1700000000, 0)
	mk := func(seq int) *vegeta.Result {
		return &vegeta.Result{Attack: "a", Seq: uint64(seq), Timestamp: base.Add(time.Duration(seq) * time.Millisecond), Latency: time.Millisecond}
	}
	ls := newLabeledSeries(ErrorLabeler)
	late := verif_choose("late_arrivals_before_the_missing_one", 3)
	total := B + 2 + late
	for s := 2; s < B+2; s++ {
		verif_assert(ls.add(mk(s)) == nil, "C17.ls.no-error")
	}
	verif_assert(ls.add(mk(0)) == nil, "C17.ls.no-error")
	for s := B + 2; s < total; s++ {
		verif_assert(ls.add(mk(s)) == nil, "C17.ls.no-error")
	}
	verif_assert(ls.add(mk(1)) == nil, "C17.ls.no-error")
	verif_assert(len(ls.buf) == 0, "C17.ls.nothing-left-buffered")
	verif_assert(len(pushed) == total, "C17.ls.one-point-per-result")
	ordered := true
	for k := range pushed {
		if pushed[k] != uint64(k) {
			ordered = false
		}
	}
	verif_assert(ordered, "C17.ls.points-in-sequence-order")
}
