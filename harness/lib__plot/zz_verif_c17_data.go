package plot

import (
	"math"
	"time"

	tsz "github.com/tsenart/go-tsz"
	vegeta "github.com/tsenart/vegeta/v12/lib"
)

// C17 (PD) — from Plot.Add to the data set handed to the chart, without
// downsampling (threshold 0): n results spread over two attacks and the OK /
// ERROR labels (arriving in sequence order per attack; reordering is the
// subject of the labeled-series harness), symbolic non-decreasing timestamps
// and latencies. Plot.Add, Plot.Close, Plot.data, timeSeries.add/iter and
// lttb.Downsample's pass-through run for real; the compressed series (go-tsz)
// is a recorder with an iterator. Every result becomes exactly one row whose
// only value sits in the column of its own (attack, label) series, at
// x = seconds since the attack's first request and y = latency in ms; rows are
// ordered by x; the column labels name the series.
//
//verif:harness mode=int solver=z3 param.n=1..2 thorough.param.n=1..3 unwind=64 timeout=30000 replay=none
func verif_harness_C17_plot_data() {
	if !verif_is_symbolic_run() {
		return
	}
	n := verif_param("n")
	pushes := map[*tsz.Series][]verifPush{}
	finished := map[*tsz.Series]bool{}
	type cursor struct {
		s   *tsz.Series
		pos int
	}
	iters := map[*tsz.Iter]*cursor{}
	verif_stub("github.com/tsenart/go-tsz.New", func(t0 uint64) *tsz.Series { return &tsz.Series{} })
	verif_stub("(*github.com/tsenart/go-tsz.Series).Push", func(s *tsz.Series, t uint64, v float64) {
		verif_assert(!finished[s], "C17.pd.no-push-after-finish")
		pushes[s] = append(pushes[s], verifPush{t, v})
	})
	verif_stub("(*github.com/tsenart/go-tsz.Series).Finish", func(s *tsz.Series) { finished[s] = true })
	verif_stub("(*github.com/tsenart/go-tsz.Series).Iter", func(s *tsz.Series) *tsz.Iter {
		verif_assert(finished[s], "C17.pd.series-finished-before-it-is-read")
		it := &tsz.Iter{}
		iters[it] = &cursor{s: s}
		return it
	})
	verif_stub("(*github.com/tsenart/go-tsz.Iter).Next", func(it *tsz.Iter) bool {
		c := iters[it]
		if c.pos >= len(pushes[c.s]) {
			return false
		}
		c.pos++
		return true
	})
	verif_stub("(*github.com/tsenart/go-tsz.Iter).Values", func(it *tsz.Iter) (uint64, float64) {
		c := iters[it]
		p := pushes[c.s][c.pos-1]
		return p.t, p.v
	})
	verif_stub("(*github.com/tsenart/go-tsz.Iter).Err", func(it *tsz.Iter) error { return nil })
	verif_stub("(time.Duration).Seconds", func(d time.Duration) float64 { return verif_uf_f64("seconds", int64(d)) })

	p := New(Downsample(0))
	rs := make([]*vegeta.Result, n)
	next := map[string]uint64{}
	first := map[string]time.Time{}
	for i := range rs {
		attack := []string{"a", "b"}[verif_choose("attack", 2)]
		rs[i] = &vegeta.Result{Attack: attack, Seq: next[attack], Timestamp: verif_nondet_time("ts"), Latency: time.Duration(verif_nondet_i64("latency"))}
		next[attack]++
		if verif_nondet_bool("failed") {
			rs[i].Error = "boom"
		}
		if i > 0 {
			verif_assume(!rs[i].Timestamp.Before(rs[i-1].Timestamp))
		}
		if _, ok := first[attack]; !ok {
			first[attack] = rs[i].Timestamp
		}
		verif_assert(p.Add(rs[i]) == nil, "C17.pd.add-no-error")
	}
	p.Close()
	data, labels, err := p.data()
	verif_assert(err == nil, "C17.pd.no-error")
	verif_assert(len(data) == n, "C17.pd.one-row-per-result")
	verif_assert(len(labels) >= 2 && labels[0] == "Seconds", "C17.pd.first-column-is-seconds")
	if err != nil || len(data) != n {
		return
	}
	used := make([]bool, n)
	for i, r := range rs {
		col := -1
		for j, l := range labels {
			if l == r.Attack+": "+ErrorLabeler(r) {
				verif_assert(col < 0, "C17.pd.series-labels-distinct")
				col = j
			}
		}
		verif_assert(col >= 1, "C17.pd.result's-series-has-a-column")
		if col < 1 {
			continue
		}
		x := time.Duration(uint64(r.Timestamp.Sub(first[r.Attack])) / 1e6 * 1e6).Seconds()
		y := r.Latency.Seconds() * 1000
		found := false
		for k, row := range data {
			if used[k] || len(row) != len(labels) {
				continue
			}
			if verif_same_f64(row[0], x) && verif_same_f64(row[col], y) {
				others := true
				for j := 1; j < len(row); j++ {
					if j != col && !math.IsNaN(row[j]) {
						others = false
					}
				}
				if others {
					used[k] = true
					found = true
					break
				}
			}
		}
		verif_assert(found, "C17.pd.each-result-is-one-row-in-its-own-series-column")
		_ = i
	}
	for k := 1; k < len(data); k++ {
		verif_assert(!(data[k][0] < data[k-1][0]), "C17.pd.rows-ordered-by-x")
	}
}
