package prom

import (
	"strconv"
	"time"

	"github.com/prometheus/client_golang/prometheus"

	vegeta "github.com/tsenart/vegeta/v12/lib"
)

// recording stand-ins for the Prometheus vectors' children
type verifCall struct {
	vec    interface{}
	labels []string
	adds   []float64 // arguments of Add
	incs   int       // number of Inc calls
	obs    []float64 // arguments of Observe
}

type verifCounter struct {
	prometheus.Counter
	c *verifCall
}

func (v verifCounter) Add(x float64) { v.c.adds = append(v.c.adds, x) }
func (v verifCounter) Inc()          { v.c.incs++ }

type verifObserver struct{ c *verifCall }

func (v verifObserver) Observe(x float64) { v.c.obs = append(v.c.obs, x) }

// C20 — one Observe call, symbolic result: for the label set
// (method, url, status) bytes-in/out grow by the result's byte counts, the
// latency histogram gets exactly one observation of the latency in seconds,
// and the failure counter of (method, url, status, error) grows by one iff the
// error is non-empty; nothing else is touched. One step from any state, hence
// the sums over any sequence.
//
//verif:harness unwind=16
func verif_harness_C20_observe() {
	pm := &Metrics{
		requestLatencyHistogram: &prometheus.HistogramVec{},
		requestBytesInCounter:   &prometheus.CounterVec{},
		requestBytesOutCounter:  &prometheus.CounterVec{},
		requestFailCounter:      &prometheus.CounterVec{},
	}
	var calls []*verifCall
	if verif_is_symbolic_run() {
		verif_stub("(*github.com/prometheus/client_golang/prometheus.CounterVec).WithLabelValues",
			func(v *prometheus.CounterVec, lvs ...string) prometheus.Counter {
				c := &verifCall{vec: v, labels: append([]string(nil), lvs...)}
				calls = append(calls, c)
				return verifCounter{c: c}
			})
		verif_stub("(*github.com/prometheus/client_golang/prometheus.HistogramVec).WithLabelValues",
			func(v *prometheus.HistogramVec, lvs ...string) prometheus.Observer {
				c := &verifCall{vec: v, labels: append([]string(nil), lvs...)}
				calls = append(calls, c)
				return verifObserver{c: c}
			})
	} else {
		// native replay uses the real vectors
		pm = NewMetrics()
	}

	res := &vegeta.Result{
		Method:   verif_nondet_string("method", 1),
		URL:      verif_nondet_string("url", 1),
		Code:     verif_nondet_u16("code"),
		BytesIn:  verif_nondet_u64("bytes_in"),
		BytesOut: verif_nondet_u64("bytes_out"),
		Latency:  time.Duration(verif_nondet_i64("latency")),
		Error:    verif_nondet_string("error", verif_choose("errlen", 2)),
	}
	if verif_nondet_bool("long_error_message") {
		// a realistic transport error text, far longer than any label budget
		res.Error = "Get \"http://target.example:8080/some/long/path?with=a&long=query\": dial tcp 203.0.113.17:8080: connect: connection refused (attempt 3 of 3, gave up after 30.000001s waiting for a free connection slot)"
	}
	pm.Observe(res)

	if !verif_is_symbolic_run() {
		verifNativeC20(pm, res)
		return
	}

	code := strconv.FormatUint(uint64(res.Code), 10)
	find := func(vec interface{}) (*verifCall, int) {
		var hit *verifCall
		n := 0
		for _, c := range calls {
			if c.vec == vec {
				hit = c
				n++
			}
		}
		return hit, n
	}
	base := func(c *verifCall, extra int) bool {
		return len(c.labels) == 3+extra && c.labels[0] == res.Method && c.labels[1] == res.URL && c.labels[2] == code
	}

	in, n := find(pm.requestBytesInCounter)
	verif_assert(n == 1, "C20.bytes-in-touched-once")
	if n == 1 {
		verif_assert(base(in, 0), "C20.bytes-in-labels")
		verif_assert(len(in.adds) == 1 && in.incs == 0 && verif_same_f64(in.adds[0], float64(res.BytesIn)), "C20.bytes-in-adds-bytes-in")
	}
	out, n := find(pm.requestBytesOutCounter)
	verif_assert(n == 1, "C20.bytes-out-touched-once")
	if n == 1 {
		verif_assert(base(out, 0), "C20.bytes-out-labels")
		verif_assert(len(out.adds) == 1 && out.incs == 0 && verif_same_f64(out.adds[0], float64(res.BytesOut)), "C20.bytes-out-adds-bytes-out")
	}
	lat, n := find(pm.requestLatencyHistogram)
	verif_assert(n == 1, "C20.latency-touched-once")
	if n == 1 {
		verif_assert(base(lat, 0), "C20.latency-labels")
		verif_assert(len(lat.obs) == 1 && verif_same_f64(lat.obs[0], res.Latency.Seconds()), "C20.latency-observed-in-seconds")
	}
	fail, n := find(pm.requestFailCounter)
	if res.Error == "" {
		verif_assert(n == 0, "C20.no-failure-without-error")
	} else {
		// one message for the whole condition, the same the native twin uses:
		// the counter of exactly (method, url, status, error) grew by one
		ok := n == 1
		if ok {
			ok = base(fail, 1) && fail.labels[3] == res.Error &&
				((fail.incs == 1 && len(fail.adds) == 0) || (fail.incs == 0 && len(fail.adds) == 1 && fail.adds[0] == 1))
		}
		verif_assert(ok, "C20.failure-counter-incremented-by-one")
	}
	verif_assert(len(calls) <= 4, "C20.nothing-else-touched")
}

// C20 — two consecutive observations with arbitrary (possibly partly equal)
// label values: each observation touches exactly the children of ITS OWN label
// set (catches state carried from one Observe to the next).
//
//verif:harness unwind=32 replay=none
func verif_harness_C20_two_observes() {
	if !verif_is_symbolic_run() {
		return
	}
	pm := &Metrics{
		requestLatencyHistogram: &prometheus.HistogramVec{},
		requestBytesInCounter:   &prometheus.CounterVec{},
		requestBytesOutCounter:  &prometheus.CounterVec{},
		requestFailCounter:      &prometheus.CounterVec{},
	}
	var calls []*verifCall
	verif_stub("(*github.com/prometheus/client_golang/prometheus.CounterVec).WithLabelValues",
		func(v *prometheus.CounterVec, lvs ...string) prometheus.Counter {
			c := &verifCall{vec: v, labels: append([]string(nil), lvs...)}
			calls = append(calls, c)
			return verifCounter{c: c}
		})
	verif_stub("(*github.com/prometheus/client_golang/prometheus.HistogramVec).WithLabelValues",
		func(v *prometheus.HistogramVec, lvs ...string) prometheus.Observer {
			c := &verifCall{vec: v, labels: append([]string(nil), lvs...)}
			calls = append(calls, c)
			return verifObserver{c: c}
		})
	rs := make([]*vegeta.Result, 2)
	for i := range rs {
		rs[i] = &vegeta.Result{
			Method:  []string{"GET", "POST"}[verif_choose("method", 2)],
			URL:     []string{"http://a/", "http://b/"}[verif_choose("url", 2)],
			Code:    []uint16{200, 0}[verif_choose("code", 2)],
			BytesIn: verif_nondet_u64("bytes_in"),
			Latency: time.Duration(verif_nondet_i64("latency")),
		}
	}
	for i, res := range rs {
		before := map[*verifCall]int{}
		for _, c := range calls {
			before[c] = len(c.adds) + len(c.obs) + c.incs
		}
		pm.Observe(res)
		code := strconv.FormatUint(uint64(res.Code), 10)
		// every child that changed during this Observe carries this result's labels
		touched := 0
		for _, c := range calls {
			if len(c.adds)+len(c.obs)+c.incs != before[c] {
				touched++
				verif_assert(len(c.labels) >= 3 && c.labels[0] == res.Method && c.labels[1] == res.URL && c.labels[2] == code, "C20.observation-lands-on-its-own-label-set")
			}
		}
		verif_assert(touched == 3, "C20.three-series-updated-per-result")
		_ = i
	}
}

// verifRegisterer models a Prometheus registry at the Registerer interface:
// it accepts collectors and may refuse the k-th one, with a plain error or with
// AlreadyRegisteredError (what a real registry answers to a second Metrics
// instance, whose descriptors clash with the first one's).
type verifRegisterer struct {
	accepted []prometheus.Collector
	existing prometheus.Collector // what the registry already exports instead of the refused collector
	refuseAt int
	already  bool
	calls    int
}

type verifPlainError struct{}

func (verifPlainError) Error() string { return "model: descriptor rejected" }

func (r *verifRegisterer) Register(c prometheus.Collector) error {
	k := r.calls
	r.calls++
	if k == r.refuseAt {
		if r.already {
			switch c.(type) {
			case *prometheus.HistogramVec:
				r.existing = &prometheus.HistogramVec{}
			default:
				r.existing = &prometheus.CounterVec{}
			}
			return prometheus.AlreadyRegisteredError{ExistingCollector: r.existing, NewCollector: c}
		}
		return verifPlainError{}
	}
	r.accepted = append(r.accepted, c)
	return nil
}
func (r *verifRegisterer) MustRegister(cs ...prometheus.Collector) { panic("model: not used") }
func (r *verifRegisterer) Unregister(c prometheus.Collector) bool  { return false }

// C20 — values can only equal the sums if the collectors this instance
// updates are the ones the registry exports: Register succeeds when the
// registry accepts every collector, offers each once, and whenever it reports
// success each of the instance's four collectors is exported — accepted by the
// registry, or the already-registered collector the registry pointed to.
//
//verif:harness unwind=16 replay=none
func verif_harness_C20_register() {
	if !verif_is_symbolic_run() {
		return
	}
	pm := &Metrics{
		requestLatencyHistogram: &prometheus.HistogramVec{},
		requestBytesInCounter:   &prometheus.CounterVec{},
		requestBytesOutCounter:  &prometheus.CounterVec{},
		requestFailCounter:      &prometheus.CounterVec{},
	}
	r := &verifRegisterer{refuseAt: verif_choose("refused_collector", 5), already: verif_nondet_bool("already_registered")}
	err := pm.Register(r)
	if r.refuseAt >= 4 {
		verif_assert(err == nil, "C20.register.succeeds-when-all-accepted")
		verif_assert(len(r.accepted) == 4, "C20.register.offers-each-collector-once")
	}
	if err == nil {
		exported := map[prometheus.Collector]bool{}
		for _, c := range r.accepted {
			exported[c] = true
		}
		if r.existing != nil {
			exported[r.existing] = true
		}
		verif_assert(exported[pm.requestLatencyHistogram] && exported[pm.requestBytesInCounter] && exported[pm.requestBytesOutCounter] && exported[pm.requestFailCounter],
			"C20.register.success-means-all-four-collectors-are-exported")
	}
}

type verifNopCounter struct{ prometheus.Counter }

func (verifNopCounter) Add(float64) {}
func (verifNopCounter) Inc()        {}

type verifNopObserver struct{}

func (verifNopObserver) Observe(float64) {}

// C20 — results observed from concurrent goroutines: two goroutines call
// Observe on one Metrics with different results; the Prometheus vectors are
// replaced by no-ops (their own thread-safety is Prometheus'), every other
// memory either goroutine writes is found automatically and checked for a data
// race: Observe itself keeps no shared state between calls.
//
//verif:harness engine=gobmc unwind=16 replay=none autoshared=1 queries=cut,race bmctimeout=600
func verif_harness_C20_observe_concurrent() {
	// the instance is built by the real NewMetrics (only the Prometheus
	// constructors are replaced), so whatever state it sets up is there
	verif_stub("github.com/prometheus/client_golang/prometheus.NewHistogramVec",
		func(o prometheus.HistogramOpts, l []string) *prometheus.HistogramVec {
			return &prometheus.HistogramVec{}
		})
	verif_stub("github.com/prometheus/client_golang/prometheus.NewCounterVec",
		func(o prometheus.CounterOpts, l []string) *prometheus.CounterVec { return &prometheus.CounterVec{} })
	pm := NewMetrics()
	verif_stub("(*github.com/prometheus/client_golang/prometheus.CounterVec).WithLabelValues",
		func(v *prometheus.CounterVec, lvs ...string) prometheus.Counter { return verifNopCounter{} })
	verif_stub("(*github.com/prometheus/client_golang/prometheus.HistogramVec).WithLabelValues",
		func(v *prometheus.HistogramVec, lvs ...string) prometheus.Observer { return verifNopObserver{} })
	results := []*vegeta.Result{
		{Method: "GET", URL: "http://a/", Code: 200, BytesIn: 1, Latency: time.Millisecond},
		{Method: "POST", URL: "http://b/", Code: 500, BytesOut: 2, Latency: time.Second, Error: "boom"},
	}
	done := make(chan struct{})
	verif_chan_name(done, "done")
	for w := 0; w < 2; w++ {
		r := results[w]
		go func() {
			pm.Observe(r)
			done <- struct{}{}
		}()
	}
	<-done
	<-done
}
