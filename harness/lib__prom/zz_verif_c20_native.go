package prom

import (
	"strconv"

	"github.com/prometheus/client_golang/prometheus"
	dto "github.com/prometheus/client_model/go"

	vegeta "github.com/tsenart/vegeta/v12/lib"
)

// verifNativeC20 is the native twin of the recording models: it reads the
// real Prometheus vectors after one Observe.
func verifNativeC20(pm *Metrics, res *vegeta.Result) {
	code := strconv.FormatUint(uint64(res.Code), 10)
	read := func(m prometheus.Metric) *dto.Metric {
		var d dto.Metric
		_ = m.Write(&d)
		return &d
	}
	in := read(pm.requestBytesInCounter.WithLabelValues(res.Method, res.URL, code))
	verif_assert(verif_same_f64(in.GetCounter().GetValue(), float64(res.BytesIn)), "C20.bytes-in-adds-bytes-in")
	out := read(pm.requestBytesOutCounter.WithLabelValues(res.Method, res.URL, code))
	verif_assert(verif_same_f64(out.GetCounter().GetValue(), float64(res.BytesOut)), "C20.bytes-out-adds-bytes-out")
	h := read(pm.requestLatencyHistogram.WithLabelValues(res.Method, res.URL, code).(prometheus.Metric))
	verif_assert(h.GetHistogram().GetSampleCount() == 1, "C20.latency-touched-once")
	verif_assert(verif_same_f64(h.GetHistogram().GetSampleSum(), res.Latency.Seconds()), "C20.latency-observed-in-seconds")
	if res.Error != "" {
		f := read(pm.requestFailCounter.WithLabelValues(res.Method, res.URL, code, res.Error))
		verif_assert(f.GetCounter().GetValue() == 1, "C20.failure-counter-incremented-by-one")
	}
}
