#!/bin/bash
# Runs every registered check's quick (or $1) command on the current tree and
# reports exit codes; used to regenerate the committed evidence files.
tier=${1:-quick}
cd /verif
if [ -n "$(git -C /repo status --porcelain)" ]; then echo "WARNING: /repo is dirty"; fi
for p in $(python3 -c "import json;print(' '.join(c['property_id'] for c in json.load(open('MANIFEST.json'))['checks']))"); do
  s=$(date +%s); timeout 7200 ./bin/vcheck $p --tier $tier > /tmp/run_all_$p.log 2>&1; rc=$?; e=$(date +%s)
  echo "$p rc=$rc $((e-s))s $(grep -c '^KNOWN-FINDING' /tmp/run_all_$p.log) known; $(tail -1 /tmp/run_all_$p.log | cut -c1-150)"
done
